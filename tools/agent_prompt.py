#!/usr/bin/env python3
"""Prints the prompt given to an independent mutation sub-agent for one property.
The agent receives ONLY the property text and a scratch worktree (nothing from /verif)."""
import json, sys
pid = sys.argv[1]
wt = sys.argv[2] if len(sys.argv) > 2 else f"/tmp/wt/{pid}"
n = sys.argv[3] if len(sys.argv) > 3 else "2"
p = [json.loads(l) for l in open('/verif/properties.jsonl') if json.loads(l)['id'] == pid][0]
print(f"""You are helping to evaluate a verification tool for the open-source Python package py-tdgl (loganbvh/py-tdgl: finite-volume solver of the 2D time-dependent Ginzburg-Landau equation). Your job: produce {n} DIFFERENT realistic code changes ("seeded defects") to py-tdgl, each of which BREAKS the semantic property below while the package still imports and the existing test-suite still passes.

Work ONLY inside this scratch git worktree of the repository: {wt}
Do not read or touch /verif or /repo. Do not commit. Do not use the network.

## The property ({pid}: {p['title']})
{p['statement']}

Quantified: {p['quantifier']['text']}

## What a good change looks like
- A small edit (1-15 lines) of the library code under {wt}/tdgl (not tests, not docs) of the kind a real maintainer could plausibly make by mistake in a refactoring, optimisation or "cleanup".
- It must need something SPECIFIC to manifest: an unusual input or configuration, a multi-step sequence of operations, a particular step/iteration, a fault at a particular point, or two cooperating sites that each look fine alone. NOT something ordinary use exposes at once, and not a crash on every call.
- The package must still import, and the existing tests that pass on the unchanged tree must still pass. Run at least:
    cd {wt} && /venv/bin/python -m pytest -q -p no:cacheprovider --timeout=900 tdgl/test/test_solve.py tdgl/test/test_solution.py tdgl/test/test_parameter.py tdgl/test/test_device.py tdgl/test/test_distance.py tdgl/test/test_em.py tdgl/test/test_about.py
  BEFORE changing anything (to learn which tests fail in this sandbox anyway - quite a few do, for environment reasons such as a newer numpy; ignore those) and AFTER each change; the set of failing tests must be the same. (The remaining test files, test_visualization.py and test_visualize.py, only plot the solutions produced by the fixtures in tdgl/test/conftest.py, so they keep passing as long as those fixture simulations still run; they take ~12 minutes, you need not run them.)
  Running python from inside {wt} (cwd) or with PYTHONPATH={wt} makes `import tdgl` pick up your worktree; verify with `python -c "import tdgl; print(tdgl.__file__)"`. Use /venv/bin/python.
- For each change write a demonstration: a small stand-alone Python program {wt}/demo_<k>.py that exits 0 on the unchanged code and exits non-zero (failed assertion) with the change applied, and that shows the property being violated through the public API. Keep it fast (< 2 minutes).

## Deliverables (put them in {wt}/out/)
For k = 1..{n}: out/change_<k>.diff (output of `git diff -- tdgl` with ONLY change k applied, relative to the unchanged HEAD), out/demo_<k>.py, and out/notes_<k>.md saying: what the change is, why it breaks the property, exactly what is needed for it to manifest, and the test results before/after. Make the changes independent (each diff applies alone to the unchanged tree). Before finishing, run `git checkout -- tdgl` so the worktree's library code is back to the unchanged state (keep out/ and the demos).
Never use `git stash` (the stash is shared by all worktrees of this repository and other people work in theirs concurrently); to set a change aside use `git diff -- tdgl > file; git checkout -- tdgl` and later `git apply file`. Housekeeping: test_solve.py::test_screening starts a background monitor subprocess (`python -m tdgl.visualize ... monitor`) that keeps spinning after the test; after every test run execute `pkill -f "[t]dgl.visualize"` (with the brackets, so that pkill does not match its own shell) (ignore its exit status).
Reply with a short summary of the changes you made and where the files are.""")
