#!/usr/bin/env python3
"""Round-4 prompt (also reads seeded/_incoming3):  Round-3 prompt: as agent_prompt2.py, the avoid list extended by the titles of the round-2 changes (read from seeded/_incoming2/<ID>/notes_k.md)."""
import json, sys, subprocess
pid = sys.argv[1]; wt = sys.argv[2] if len(sys.argv) > 2 else f"/tmp/wt8/{pid}"
base = subprocess.run([sys.executable, "/verif/tools/agent_prompt.py", pid, wt, "3"], capture_output=True, text=True).stdout
AVOID = {
"C01": ["early return in update_mu_boundary when all currents are zero", "caching Device.terminal_info() across re-meshing"],
"C02": ["replacing the citardauq root by the textbook quadratic formula", "returning the un-reduced dt after a retry in adaptive_euler_step"],
"C03": ["using stale (previous-call) link variables for the conjugate entries in the in-place Laplacian refresh", "Mesh.smooth() writing into the source mesh's sites array"],
"C04": ["making the screening convergence test depend on A_applied", "early return in set_link_exponents when the potential is all zeros"],
"C05": ["returning the rejected dt after a retry", "moving the stop test above the periodic save so that the final frame is lost when N is a multiple of save_every"],
"C06": ["pinning only for non-zero terminal_psi (seeded runs)", "not refreshing terminal rows of the Laplacian when terminal_psi is None"],
"C07": ["hole marker = vertex mean instead of an interior point", "in-place translate re-using the old edge mesh (stale edge centres)"],
"C08": ["np.allclose with absolute tolerance on the unscaled (unit-dependent) vector potential", "dropping .to_base_units() in the terminal current scale"],
"C09": ["numba array reduction over sites in the screening kernel (thread-count dependent sum)", "iterating over a set of terminal names in update_mu_boundary"],
"C10": ["real-valued operators when the first vector potential is identically zero", "skipping the refresh on the first screening iteration"],
"C11": ["skipping the link-variable refresh on the first screening iteration", "trimming the adaptive history list to save_every entries"],
"C12": ["allowing one retry when adaptive=False", "averaging the new proposal with the previous proposal instead of the step used"],
"C13": ["scaling dA in place before it is used in the error metric when drag == 1", "range(max_iterations+1) making the non-convergence error unreachable"],
"C14": ["truthiness test when saving optional Layer attributes (gamma=0 lost)", "re-deriving time_dependent on unpickling with a break instead of continue"],
"C15": ["except Exception instead of BaseException in the partial-frame cleanup", "clear_uncommitted zeroing a single index instead of a slice"],
"C16": ["in-place operators in CompositeParameter.__call__ corrupting cached operand values", "__getstate__ mutating the live object's left/right"],
"C17": ["dividing refreshed off-diagonal Laplacian entries by the neighbour's area when fix_psi is False", "fix_psi decided by the presence of terminal sites instead of terminal_psi is not None"],
"C18": ["Device.contains_points honouring only the last hole", "affine transforms bypassing the points setter (orientation not restored after reflection)"],
"C19": ["validating callable terminal currents only at t=0 and lazily during the run", "skipping the seed-device equality check when the devices share the Mesh object"],
"C20": ["subtracting layer.z0 twice in Solution.field_at_position", "azimuthal direction of the loop potential computed from un-centred coordinates"],
}
import glob, re
for f in sorted(glob.glob(f"/verif/seeded/_incoming2/{pid}/notes_*.md")) + sorted(glob.glob(f"/verif/seeded/_incoming3/{pid}/notes_*.md")) + sorted(glob.glob(f"/verif/seeded/_incoming4/{pid}/notes_*.md")) + sorted(glob.glob(f"/verif/seeded/_incoming5/{pid}/notes_*.md")) + sorted(glob.glob(f"/verif/seeded/_incoming6/{pid}/notes_*.md")) + sorted(glob.glob(f"/verif/seeded/_incoming7/{pid}/notes_*.md")):
    for line in open(f):
        if line.strip():
            t = re.sub(r"^#+\s*", "", line.strip())
            t = re.sub(r"^(C\d\d seeded )?[Cc]hange \d+\s*[-:]+\s*", "", t)
            AVOID.setdefault(pid, []).append(t)
            break
extra = "\n\n## Already known - do NOT repeat these or close variants\n" + "\n".join(f"- {x}" for x in AVOID.get(pid, [])) + \
    "\nFind changes that break the property through a DIFFERENT mechanism, in different code, or needing a different kind of trigger (another option combination, another sequence of API calls, another input class, another fault point).\n"
print(base.replace("## Deliverables", extra.strip("\n") + "\n\n## Deliverables"))
