#!/bin/bash
# tools/matrix3.sh [PROP...] : incoming mutants of round $ROUND (default 3; tag c, round 4: tag d) against their owning quick check (private worktrees)
cd /verif; mkdir -p /tmp/confirm/matrix
ROUND=${ROUND:-3}; TAG=$( case "$ROUND" in 4) echo d;; 5) echo e;; 6) echo f;; 7) echo g;; 8) echo h;; *) echo c;; esac )
for P in "$@"; do for k in 1 2 3; do
  patch=seeded/_incoming$ROUND/$P/change_$k.diff
  [ -f seeded/_incoming$ROUND/$P/change_${k}_ported.diff ] && patch=seeded/_incoming$ROUND/$P/change_${k}_ported.diff
  [ -f $patch ] || continue
  echo "$P-$TAG$k $patch $P"
done; done | xargs -P ${PAR:-2} -L 1 bash -c 'out=$(tools/try_mutant_wt.sh $1 $2 2>&1); echo "$out" > /tmp/confirm/matrix/$0.$2.log; echo "$out" | tail -1 | sed "s/exit=//" > /tmp/confirm/matrix/$0.$2.rc'
for P in "$@"; do for k in 1 2 3; do echo -n "$P-$TAG$k=$(cat /tmp/confirm/matrix/$P-$TAG$k.$P.rc 2>/dev/null) "; done; done; echo
