#!/bin/bash
# tools/matrix3.sh [PROP...] : round-3 incoming mutants against their owning quick check (private worktrees)
cd /verif; mkdir -p /tmp/confirm/matrix
for P in "$@"; do for k in 1 2 3; do
  patch=seeded/_incoming3/$P/change_$k.diff
  [ -f seeded/_incoming3/$P/change_${k}_ported.diff ] && patch=seeded/_incoming3/$P/change_${k}_ported.diff
  [ -f $patch ] || continue
  echo "$P-c$k $patch $P"
done; done | xargs -P ${PAR:-2} -L 1 bash -c 'out=$(tools/try_mutant_wt.sh $1 $2 2>&1); echo "$out" > /tmp/confirm/matrix/$0.$2.log; echo "$out" | tail -1 | sed "s/exit=//" > /tmp/confirm/matrix/$0.$2.rc'
for P in "$@"; do for k in 1 2 3; do echo -n "$P-c$k=$(cat /tmp/confirm/matrix/$P-c$k.$P.rc 2>/dev/null) "; done; done; echo
