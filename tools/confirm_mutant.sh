#!/bin/bash
# tools/confirm_mutant.sh <ID> <patch.diff> <demo.py>  -- independent confirmation in a scratch worktree of /repo HEAD
# writes /tmp/confirm/results/<ID>.json ; removes the worktree afterwards
ID=$1; PATCH=$(readlink -f $2); DEMO=$(readlink -f $3)
WT=/tmp/confirm/wt_$ID
export NUMBA_NUM_THREADS=1 OMP_NUM_THREADS=1 OPENBLAS_NUM_THREADS=1 MKL_NUM_THREADS=1
mkdir -p /tmp/confirm/results
git -C /repo worktree remove --force $WT 2>/dev/null
git -C /repo worktree add --detach $WT HEAD -q || exit 9
cd $WT
cp $DEMO $WT/_demo.py
PYTHONPATH=$WT timeout 600 /venv/bin/python _demo.py > /tmp/confirm/results/$ID.demo_clean.log 2>&1; rc_clean=$?
if git apply --3way $PATCH 2>/tmp/confirm/results/$ID.apply.err || git apply $PATCH 2>>/tmp/confirm/results/$ID.apply.err; then applied=1; else applied=0; fi
git reset -q
rc_mut=-1; tests="skipped"
if [ $applied = 1 ]; then
  PYTHONPATH=$WT timeout 600 /venv/bin/python _demo.py > /tmp/confirm/results/$ID.demo_mut.log 2>&1; rc_mut=$?
  if [ "${SKIP_TESTS:-0}" != 1 ]; then
    PYTHONPATH=$WT timeout 3000 /venv/bin/python -m pytest -q -p no:cacheprovider --timeout=900 -rfE tdgl/test/test_solve.py tdgl/test/test_solution.py tdgl/test/test_parameter.py tdgl/test/test_device.py tdgl/test/test_distance.py tdgl/test/test_em.py tdgl/test/test_about.py > /tmp/confirm/results/$ID.tests.log 2>&1
    grep -E "^(FAILED|ERROR) " /tmp/confirm/results/$ID.tests.log | sed 's/ - .*//' | sort > /tmp/confirm/results/$ID.failing.txt
    tests=$(tail -1 /tmp/confirm/results/$ID.tests.log)
  fi
fi
where=$(grep -m1 -o "/tmp/confirm/wt_$ID/tdgl\|/repo/tdgl" /tmp/confirm/results/$ID.demo_mut.log 2>/dev/null | head -1)
cd /; git -C /repo worktree remove --force $WT
python3 - <<PY
import json
json.dump({"id":"$ID","patch_applies":bool($applied),"demo_rc_clean":$rc_clean,"demo_rc_mutant":$rc_mut,"tests_summary":"""$tests""","head":"$(git -C /repo rev-parse --short HEAD)"}, open("/tmp/confirm/results/$ID.json","w"), indent=1)
PY
cat /tmp/confirm/results/$ID.json
