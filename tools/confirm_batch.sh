#!/bin/bash
# run confirmations, 4 at a time
cd /verif
jobs_list=()
INC=${1:-seeded/_incoming}; TAG=${2:-}
for d in $INC/*/; do
  P=$(basename $d)
  for k in 1 2 3 4; do
    patch=$d/change_$k.diff
    [ -f $d/change_${k}_ported.diff ] && patch=$d/change_${k}_ported.diff
    [ -f $patch ] || continue
    [ -f /tmp/confirm/results/$P-$TAG$k.json ] && continue
    echo "$P-$TAG$k $patch $d/demo_$k.py"
  done
done > /tmp/confirm/todo.txt
cat /tmp/confirm/todo.txt | xargs -P ${PAR:-4} -L 1 bash -c 'tools/confirm_mutant.sh $0 $1 $2 > /tmp/confirm/results/$0.out 2>&1'
echo BATCH_DONE
