#!/bin/bash
# tools/runall.sh [seed] [tier] : run every check, summarise exit codes and evidence validity
SEED=${1:-0}; TIER=${2:-quick}
cd /verif
for i in $(seq -w 1 20); do
  ID=C$i
  s=$(date +%s)
  VERIF_SEED=$SEED ./check $ID --tier $TIER > /tmp/runall_s${SEED}_$ID.out 2>&1
  rc=$?
  e=$(date +%s)
  v=$(python3-vt -c "
import json,jsonschema,sys
try:
    jsonschema.validate(json.load(open('/verif/evidence/$ID.json')),json.load(open('/root/.vp/EVIDENCE.schema.json'))); print('ev_ok')
except Exception as ex: print('EV_INVALID', str(ex)[:80])")
  echo "$ID rc=$rc $((e-s))s $v $(grep -c '^VIOLATION' /tmp/runall_s${SEED}_$ID.out) viol $(grep -c '^KNOWN' /tmp/runall_s${SEED}_$ID.out) known $(grep -c '^INCONCLUSIVE' /tmp/runall_s${SEED}_$ID.out) inconcl"
done
