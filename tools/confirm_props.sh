#!/bin/bash
# tools/confirm_props.sh <round> <tag> PROP... : confirmations (tools/confirm_mutant.sh) of the incoming changes of the named properties
cd /verif; R=$1; TAG=$2; shift 2
for P in "$@"; do for k in 1 2 3; do
  d=seeded/_incoming$R/$P; patch=$d/change_$k.diff
  [ -f $d/change_${k}_ported.diff ] && patch=$d/change_${k}_ported.diff
  [ -f $patch ] || continue
  [ -f /tmp/confirm/results/$P-$TAG$k.json ] && continue
  echo "$P-$TAG$k $patch $d/demo_$k.py"
done; done | xargs -P ${PAR:-6} -L 1 bash -c 'tools/confirm_mutant.sh $0 $1 $2 > /tmp/confirm/results/$0.out 2>&1'
echo CONFIRM_DONE "$@"
