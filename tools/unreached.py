#!/usr/bin/env python3
"""tools/unreached.py <dir with CNN.json dumps (VT_COVER_DUMP)> : executable statements of the repository's non-plotting
modules that NO check reached (a change there cannot be observed by any monitor: reach gaps to close with workloads)."""
import glob, json, os, sys
sys.path.insert(0, "/verif")
from vt import cover

d = sys.argv[1]
hit = {}
for f in glob.glob(os.path.join(d, "C*.json")):
    for k, v in json.load(open(f)).items():
        hit.setdefault(k, set()).update(v)
skip = ("solution/plot_solution.py", "visualize.py", "visualization/", "about.py", "version.py", "testing.py")
tot = 0
for k in sorted(hit):
    if k.startswith(skip) or any(s in k for s in skip):
        continue
    path = os.path.join("/repo/tdgl", k)
    ex = cover.executable_lines(path)
    miss = sorted(ex - hit[k])
    if not miss:
        continue
    src = open(path).read().splitlines()
    print(f"== {k}: {len(miss)} of {len(ex)} unreached")
    tot += len(miss)
    for ln in miss:
        print(f"  {ln:5d}: {src[ln - 1].rstrip()[:150]}")
print("TOTAL unreached", tot)
