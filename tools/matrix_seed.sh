#!/bin/bash
# tools/matrix_seed.sh <seed> : every seeded change (all rounds) against its owning quick check with VERIF_SEED=<seed>
SEED=${1:-1}; OUT=/tmp/confirm/matrix_s$SEED; mkdir -p $OUT; cd /verif
for spec in "seeded/_incoming:" "seeded/_incoming2:b" "seeded/_incoming3:c" "seeded/_incoming4:d" "seeded/_incoming5:e" "seeded/_incoming6:f" "seeded/_incoming7:g" "seeded/_incoming8:h"; do
  INC=${spec%%:*}; TAG=${spec##*:}
  for d in $INC/*/; do P=$(basename $d); for k in 1 2 3; do
    patch=$d/change_$k.diff; [ -f $d/change_${k}_ported.diff ] && patch=$d/change_${k}_ported.diff
    [ -f $patch ] || continue
    [ -f $OUT/$P-$TAG$k.rc ] && continue
    echo "$P-$TAG$k $patch $P"
  done; done
done | xargs -P ${PAR:-3} -L 1 bash -c 'out=$(VERIF_SEED='$SEED' tools/try_mutant_wt.sh $1 $2 2>&1); echo "$out" > '$OUT'/$0.log; echo "$out" | tail -1 | sed "s/exit=//" > '$OUT'/$0.rc'
for f in $OUT/*.rc; do v=$(cat $f); [ "$v" != "1" ] && echo -n "$(basename $f .rc)=$v "; done; echo; echo SEED_MATRIX_DONE
