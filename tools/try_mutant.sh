#!/bin/bash
# tools/try_mutant.sh <patch.diff> <PROP> [tier]   -- apply to /repo, run the check, always revert
set -u
P=$1; ID=$2; TIER=${3:-quick}
cd /repo || exit 9
if ! git diff --quiet; then echo "REPO DIRTY - abort"; exit 9; fi
if ! git apply --3way "$P" 2>/tmp/apply.err; then
  if ! git apply "$P" 2>>/tmp/apply.err; then echo "PATCH DOES NOT APPLY"; cat /tmp/apply.err; git reset -q --hard HEAD; exit 8; fi
fi
git reset -q
cd /verif && ./check "$ID" --tier "$TIER" --no-evidence > /tmp/mut_$ID.out 2>&1
rc=$?
grep -E "^VIOLATION|^KNOWN|^INCONCLUSIVE" /tmp/mut_$ID.out | head -5
grep -E "kind=" /tmp/mut_$ID.out | head -3
tail -2 /tmp/mut_$ID.out | head -1
cd /repo && git checkout -- . && git status --short | head -3
echo "exit=$rc"
