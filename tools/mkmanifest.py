#!/usr/bin/env python3
"""Regenerates MANIFEST.json from the table below (keeps it schema-valid)."""
import json
import os

HERE = os.path.dirname(os.path.dirname(os.path.abspath(__file__)))

# id -> (category, technique, level text, level note, design ref)
CHECKS = {}


def add(pid, category, technique, text, note, ref):
    CHECKS[pid] = dict(category=category, technique=technique, text=text, note=note, ref=ref)


add("C03", "exploration", "runtime postconditions on the real operator builders + reference-assembly differential",
    "Nine identities (L = div grad, area-weighted divergence sums to zero, boundary-flux integral, symmetry/NSD, null space = constants, Hermiticity for random A, gradient exact on linear functions, entry-wise equality with an independent per-edge assembly) are asserted on the matrices returned by the real builders for every mesh of a generated zoo (device meshes with holes/smoothing, hexagonal, random Delaunay, annulus, explicit meshes with arbitrary positive areas/dual lengths over six decades). Held on the meshes explored; sampling, not proof.",
    "numpy/scipy linear algebra; the mesh's own geometry arrays define the operators here (their correctness is C07)", "DESIGN.md 4/C03")

NOT_APPLICABLE = []


def main():
    props = [json.loads(l) for l in open(os.path.join(HERE, "properties.jsonl"))]
    checks = []
    for p in props:
        pid = p["id"]
        if pid not in CHECKS:
            continue
        c = CHECKS[pid]
        checks.append({
            "property_id": pid,
            "quick_cmd": f"./check {pid} --tier quick",
            "thorough_cmd": f"./check {pid} --tier thorough",
            "evidence_file": f"/verif/evidence/{pid}.json",
            "replay_cmd_template": f"./check {pid} --replay {{path}}",
            "engine": "vt",
            "level_claimed": {"category": c["category"], "text": c["text"], "design_ref": c["ref"]},
            "level_note": c["note"],
            "technique": c["technique"],
        })
    claimed = {c["property_id"] for c in checks}
    na = [x for x in NOT_APPLICABLE if x["property_id"] not in claimed]
    for p in props:
        if p["id"] not in claimed and p["id"] not in {x["property_id"] for x in na}:
            na.append({"property_id": p["id"], "reason": "check not built yet (work in progress); no claim is made"})
    man = {
        "version": 1,
        "setup_cmd": "true",
        "hooks": {
            "guard": "TDGL_VERIF",
            "enable": "no source hooks exist: monitors are harness-side wrappers installed at run time (vt/recorder.py); checks import the working tree by putting /repo first on sys.path",
            "baseline_off_cmd": "cd /repo && env -u TDGL_VERIF /venv/bin/python -m pytest -ra -q -p no:cacheprovider --timeout=900 --continue-on-collection-errors",
            "source_commits": [],
            "add_only": True,
        },
        "engines": [{
            "name": "vt",
            "path": "/verif/vt",
            "serves_properties": sorted(claimed),
            "kind_free_text": "runtime-monitoring harness: flight-recorder wrappers on the real tdgl functions, reference-model oracles (vt/ref), differential runs, fault injection; 16 worker subprocesses",
        }],
        "checks": checks,
        "notes": "Run with /venv/bin/python (3.12). ./check <ID> [--tier quick|thorough] [--replay path]; exit 0 held / 1 violation / 2 inconclusive. Known findings: known_findings.json (mechanism-keyed).",
        "not_applicable": na,
    }
    with open(os.path.join(HERE, "MANIFEST.json"), "w") as f:
        json.dump(man, f, indent=1)
    print("wrote MANIFEST.json with", len(checks), "checks;", len(na), "not claimed")


if __name__ == "__main__":
    main()
