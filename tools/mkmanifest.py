#!/usr/bin/env python3
"""Regenerates MANIFEST.json from the table below (keeps it schema-valid)."""
import json
import os

HERE = os.path.dirname(os.path.dirname(os.path.abspath(__file__)))

# id -> (category, technique, level text, level note, design ref)
CHECKS = {}


def add(pid, category, technique, text, note, ref):
    CHECKS[pid] = dict(category=category, technique=technique, text=text, note=note, ref=ref)


add("C03", "exploration", "runtime postconditions on the real operator builders + reference-assembly differential",
    "Nine identities, also after localised changes of the potential, on the same Mesh object after its data changed, on exact lattices where the LU factor is singular, and on one mesh with > 2^15 edges (L = div grad, area-weighted divergence sums to zero, boundary-flux integral, symmetry/NSD, null space = constants, Hermiticity for random A, gradient exact on linear functions, entry-wise equality with an independent per-edge assembly) are asserted on the matrices returned by the real builders for every mesh of a generated zoo (device meshes with holes/smoothing, hexagonal, random Delaunay, annulus, explicit meshes with arbitrary positive areas/dual lengths over six decades). Held on the meshes explored; sampling, not proof.",
    "numpy/scipy linear algebra; the mesh's own geometry arrays define the operators here (their correctness is C07)", "DESIGN.md 4/C03")

add("C01", "exploration", "online charge-balance monitor at every TDGLSolver.update return + offline check of every HDF5 frame, CODATA-based expected fluxes",
    "Per-cell net outflow (from edge currents and dual lengths) is compared at every update return and on every saved frame with the requested terminal current's share of that cell, over generated devices (2-4 terminals, holes, units, fields, constant/decimal/time-dependent currents, screening, adaptive). Also: every generated balanced assignment must be accepted. Workloads include weak bias (1e-9 of the natural scale), staircase / switched currents (terminals unnamed while they carry nothing), callables of every kind (function, partial, bound method, object), one solver solved twice, devices used before; the caller's dicts / options are unchanged by solve(). Held on the runs explored.",
    "terminal edge membership and dual lengths taken from the mesh (checked in C07); gate 1e-8 relative", "DESIGN.md 4/C01")
add("C02", "exploration", "long-double reference oracle on every solve_for_psi_squared return (generated inputs + in situ)",
    "The documented static method is called on ~1e6 generated site-cases spanning the input space (exact zeros, tiny/large |psi|, gamma=0, ten decades of dt, random sparse and mesh Laplacians) and on every call made by full simulations; a long-double evaluation of the documentation's equations decides answered/refused, the quadratic's backward error, psi'+z|psi'|^2=w, |psi'|^2 consistency and the branch. In situ the arguments of every call are tied to the state handed to update() (psi^n, |psi^n|^2, mu^n bit-equal / 1e-13, epsilon(t^n), the layer's gamma and u) and the step reported by update() to the accepted solve.",
    "80-bit long double as reference; decision band 1e-9 of the discriminant's terms; overflowing inputs skipped", "DESIGN.md 4/C02")
add("C05", "exploration", "reference model (executable run specification) over recorded update/save traces, checked on the HDF5 file and the loaded Solution",
    "From the dt sequence actually returned by update the model derives the final step, the frame set, frame times and per-step records; every frame's datasets must hash-equal the state after exactly s updates, records must appear once and in order, Solution.times/dynamics must agree, also after selecting another frame (solve_step / from_hdf5(solve_step=)); steps down to 1e-12. Runs with the live monitor requested (refresh interval always elapsed) keep the same frame set. Thorough enumerates k=1..N+2, N=0..12 x fixed/adaptive(with retries) x thermalisation x probes (exhaustive within that bound).",
    "hooks observe the values returned by TDGLSolver.update; sha256 hashes of array bytes", "DESIGN.md 4/C05")
add("C06", "exploration", "online pin monitor (exact value on terminal sites, identity-row structure, free-update oracle on all other sites) + differential run",
    "At every update return and saved frame psi on terminal sites must equal terminal_psi exactly, pinned Laplacian rows must be exactly the terminal sites, and every non-pinned site must follow the free TDGL update computed by the long-double oracle with an independently rebuilt Laplacian; unpinned terminals with zero current must reproduce the terminal-free run bit for bit. Histories: runs continued from seeds holding other terminal values; one Device solved, moved in place (translate / translation()), solved again and moved back, terminal sites re-derived from the polygons' current vertices each time; Corbino geometry (terminal on a hole's rim); re-meshed devices; one options object used on two devices (solve() may not change the caller's options).",
    "terminal site membership from Device.terminal_info() (C07)", "DESIGN.md 4/C06")
add("C10", "exploration", "history monitor: live operators vs fresh rebuild vs reference assembly after every set_link_exponents; in-situ link-variable monitor during runs",
    "Sequences (length 1..6) of vector potentials over {0, A1, A2, 5A1, repeats} are applied to one live MeshOperators for four pin sets; after every call gradient and Laplacian must equal a fresh instance and the reference assembly entry-wise with the same sparsity pattern. Meshes with exactly zero dual edge lengths are included. During simulations (second solve() on one solver, devices used before, fast/slow ramps, piecewise, oscillating, screening) the link variables in the operators in use are compared at every solve with the potential the harness evaluates itself.",
    "fresh MeshOperators build defines 'from scratch' (its correctness is C03); in-situ tolerance admits the solver's documented allclose skip", "DESIGN.md 4/C10")
add("C12", "exploration", "reference model of the adaptive time-step rule over per-update traces (attempt sequences, proposals, exhaustion)",
    "Per update: attempts form d, d*m, ... with one factor per refusal, returned dt = last attempt = recorded dt, 0 < dt <= dt_max, fixed-step runs never change dt; after the warm-up window the proposal equals min((dt + dt_init/delta)/2, dt_max) with delta recomputed by the monitor; retry exhaustion raises (out of solve() itself, to the caller) and records nothing more. Workloads force thousands of retries and several exhaustions; dt_init == dt_max, windows > 1000 steps, non-zero pinned terminals, screening with unclipped proposals, re-used options objects, devices used before.",
    "delta recomputed from psi passed to / returned by update", "DESIGN.md 4/C12")
add("C13", "exploration", "online self-consistency monitor on every get_induced_vector_potential call with an independent SI direct sum; kernel differential",
    "Every screening iteration: monitor recomputes (mu0/4pi) sum K a/r (own site averaging, CODATA scales) and the relative mismatch; reported error must match, accepted steps must be below tolerance, stored potential must reproduce the sum from stored currents (<=30x tol), non-convergence must raise with no later frame, screening off gives identically zero (also when started from a seed computed with screening). Devices in um/nm/mm, ordinary and very weak (1e-8 Bc2) fields. Plain fixed-point iteration, second-generation runs with re-loaded options, seed immutability. Numba kernel compared with a numpy double sum on random inputs incl. tiny numbers and sets far from the origin.",
    "site-current convention of Solution.current_density; CODATA 2018", "DESIGN.md 4/C13")
add("C16", "exploration", "differential evaluation of enumerated expression trees against a vt-side tuple-tree evaluator",
    "~9k (quick) / ~100k (thorough) expression trees over five operators and five leaf kinds, both operand orders, are built with tdgl.Parameter arithmetic and compared with a reference evaluator on scalar/array arguments with and without z and t (including operand-error propagation), plus time_dependent flag, structural equality, cache clearing, pickle round trip; composites are handed to tdgl.solve and must reproduce the run of the equivalent plain Parameter; composites over closures / lambdas (same-factory leaves, serialisation, equality).",
    "raw leaf functions and Python's operator module define pointwise arithmetic", "DESIGN.md 4/C16")
add("C17", "exploration", "online stationarity monitor on undriven runs, verdict inside the harness-computed explicit stability bound",
    "psi=1, mu=0 with no drive: at every update return |psi-1| <= 1e-12 and mu, currents, induced potential exactly zero, adaptive dt grows to dt_max, on irregular/smoothed/holed meshes with unpinned terminals, gamma/u grid, screening. Also terminals pinned at the uniform value, fixed steps below dt_max, histories (device solved pinned before, re-used options object, seed left by an adaptive run). dt_max is drawn inside the mesh's explicit stability bound for the verdict; runs above the bound are classified by mechanism (known finding).",
    "stability bound from a dense eigenvalue of the reference Laplacian", "DESIGN.md 4/C17")

add("C04", "exploration", "covariance postconditions on the real operator builders / live MeshOperators + differential pairs of gauge-shifted runs",
    "Operator level: for random chi, A, psi the built covariant Laplacian/gradient must transform covariantly and the supercurrent must be unchanged, through fresh builds and in-place refreshes (incl. pure-gauge vs exactly-zero potentials, pinned rows). Run level: pairs of full runs whose applied potential differs by a constant vector (0.3-30x max|A|), partner started from the gauge image; every update return compared modulo gauge/global phase and mu constant; dt sequences must coincide. Variants: slowly creeping field with offsets up to 3000x max|A|, device re-loaded from a file, pairs that continue a first part from a seed solution (partner seeded with the gauge image).",
    "runs are kept inside the explicit scheme's stability bound (harness-computed) so that rounding is not amplified; gate 1e-7 (10x tolerance with screening)", "DESIGN.md 4/C04")
add("C07", "exploration", "geometric postconditions on Device.make_mesh against an independent clipped-Voronoi / winding-number oracle",
    "Every triangle (orientation, tiling area, containment), boundary site/edge (on outlines, exactly), Euler characteristic, edge vectors/lengths/centres, and - where the triangulation is locally Delaunay with unencroached boundary and an unambiguous one-piece cell - every cell area and dual edge length against half-plane-clipped Voronoi cells intersected with the domain polygon; terminal edges/sites/length against the boundary covered by the terminal polygon. Also after re-meshing, in-place translation, hdf5 round trip and smoothing of a copy; devices up to 3e5 coherence lengths from the origin (oracle in centroid-relative coordinates, conditioning-aware gates); second-hand hole polygons (mesh=False).",
    "shapely for polygon intersection/area/length; skipped (ineligible) sites counted with reasons", "DESIGN.md 4/C07")
add("C08", "exploration", "differential runs of one physical problem stated in two unit systems + CODATA flux-quantum identity per triangle",
    "The same physical problem (device, field, currents) is restated in another unit system on the same dimensionless mesh and run; dimensionless states at every update, dt sequences, physical current density, vector potential and field at fixed physical points must agree; A_scale/Bc2/A0/K0 are compared with CODATA-based values and the link phase around every mesh triangle must equal 2 pi flux / Phi_0. Pairs are also moved in place after meshing, have z0 != 0, terminals stated in mm, loop drives in other current units; asking for a field twice may not change it or the currents; ONE options object edited between the two statements (the finished first solution keeps answering in its own units); whole-number integer-typed evaluation points with a constant non-integer height.",
    "runs kept inside the stability bound; CODATA 2018; gate 1e-7", "DESIGN.md 4/C08")
add("C09", "exploration", "differential execution across schedules: fresh processes x thread counts x hash seeds x output locations, digest comparison",
    "Each configuration runs in fresh processes under NUMBA_NUM_THREADS 1..16, BLAS threads, PYTHONHASHSEED 0/1/random, file/temp output, other cwd, repeated; sha256 digests of mesh arrays, every update state, recorded frames/attrs/records and dt sequences must all coincide. Digests also cover the returned Solution; output location may be an already occupied file name. In-process: NaN-poisoned kernel buffer fully overwritten; global numpy RNG untouched; the same seeded simulation run twice from one in-memory seed and once from the re-loaded seed must coincide and leave the seed untouched; X on a Device (or with an options object, or a caller-held time-dependent Parameter that was meanwhile mentioned in an expression) that was used before must equal X on freshly built ones. Configurations include callable currents with a pulse covering 0.67 % of the run and a requested live monitor (wall-clock refresh interval far below the run time; plotting process not started).",
    "one machine / one numba build; a race is visible only as a differing result", "DESIGN.md 4/C09")
add("C11", "exploration", "differential runs across recording configurations and across every split point of a resumed run",
    "One physics input under 7-9 recording configurations (save_every, file/temp, probes, progress reporting): frames with the same step label bit-identical, update-state and dt sequences identical. Fixed-step static runs split at N1+N2 and resumed from the reloaded Solution must reproduce the uninterrupted frames bit for bit, with and without screening; per-step records equal across recording configurations; the seed is looked at (all plots / derived quantities) before the resume and must be unchanged. Resume variants whose drive changes before the split and is constant afterwards (field ramped then held, soft-started currents), continued as the static value and as the same object shifted by T1; a thermalised observe case.",
    "sha256 of dataset bytes", "DESIGN.md 4/C11")
add("C14", "exploration", "round-trip differential on objects (hdf5, pickle, copy) with field-by-field comparison and behavioural equivalence",
    "Devices (hdf5 with/without mesh, pickle, copy; mesh full/compressed/from_triangulation), Solutions (in place / copy; every option incl. None-valued; every recorded step; dynamics; drives evaluated at random points/times) and composite parameters carried through a Solution file are written and read back with the real functions and compared bit-wise; reloaded devices must solve identically; memory-only solutions incl. a second generation; relative output paths; Constant leaves.",
    "h5py/pickle correct; time_created excluded", "DESIGN.md 4/C14")
add("C15", "fault_enumeration", "fault injection at every (stage, step, hook point) incl. mid-frame-writer and line-level sys.monitoring failpoints, audited from outside",
    "For every step 0..N and both stages RuntimeError/KeyboardInterrupt are injected at update entry/exit, save entry/middle(each dataset)/exit; explicit path or temp; pre-existing files; pause answers. Audit: output reopens r and r+, frames == completed saves and pass the C05 checker as a prefix, no .tmp/tempdir/stray file, pre-existing files byte-identical, error propagates / cancellation returns a usable partial solution. Faults inside the arithmetic of solve_for_psi_squared, Ctrl-C twice, faults in the MIDDLE of update() (n-th observables / kernel call) with screening; seven sets of pre-existing files. Thorough adds statement-level failpoints in _run_stage, save_time_step, __enter__, close, _create_output_file.",
    "faults inside h5py's C code not modelled; exhaustive within the listed (case, step, point, exception) grid", "DESIGN.md 4/C15")
add("C18", "exploration", "postconditions on polygon/device operations against a winding-number membership oracle, shoelace areas and byte-level aliasing checks",
    "Random boxes/circles/ellipses (any vertex count, orientation, centre, scale over four decades): stored points closed+CCW, set operations (methods, operators, classmethods) vs membership of operands at probe points away from outlines, inclusion-exclusion, affine transforms (areas, mapped points, mapped vertices, reflections), inplace/non-inplace/copy aliasing (incl. the layer), Device.contains_points vs film-and-not-holes, Device-level transforms, translation() left by an exception, meshed devices moved in place (a copy taken before never moves along, and vice versa), finely sampled outlines far from the origin.",
    "probe points closer than 1e-6 (relative) to an outline are not judged", "DESIGN.md 4/C18")
add("C19", "fault_enumeration", "negative enumeration of ill-posed inputs with filesystem / temp-dir / hook watch",
    "Each member of 58 ill-posed classes (incl. options edited after construction, a terminal moved off the boundary after a first solve, seeds from devices with fewer terminals / holes) (magnitudes from gross to 1e-6; with/without output path) must raise, and afterwards: output directory empty, no TemporaryDirectory created, DataHandler never entered, update never called.",
    "callables unbalanced in a window < 25% are observations only", "DESIGN.md 4/C19")
add("C20", "exploration", "differential against direct SI sums and loop quadrature; Solution-level parts vs direct sums from its own currents",
    "biot_savart_2d (vector/scalar, units, linearity, additivity over sources) vs a numpy Biot-Savart sum; current_loop_vector_potential vs spectral quadrature incl. near/on-axis and small-elliptic-parameter points judged relative to |A| there; integer- vs float-typed evaluation points; one evaluation point; the same lateral positions at other heights; weak drives in large units; loop drives; convert_field round trips and B = mu0 H; on solved devices field_at_position / vector_potential_at_position: total = sum of parts, parts = direct sums from the solution's own sheet currents and areas in several units, applied part = the user's parameter.",
    "CODATA 2018 mu0, gate 1e-7", "DESIGN.md 4/C20")

NOT_APPLICABLE = []


# rounds 7 and 8: what the checks additionally cover (appended to the level text)
EXTRA = {
    "C01": "Also: Corbino disks (current enters through a hole's edge); a Device solved, then moved in place for good (a refusal after a rigid move is a violation).",
    "C03": "Also: meshes read back from a file; the caller's potential array changed in place between refreshes.",
    "C04": "Also: transport current with screening in zero applied field (zero vs constant gauge); real-typed order parameter at operator level.",
    "C05": "Also: one Solution object as the seed of two continuations, also moved to an earlier recorded frame (frame 0 holds what the seed's file holds under that frame; seed unchanged); for every selected frame the loaded object reports what the file holds under it (time-dependent potential / epsilon included); probe order re-derived by the harness.",
    "C07": "Also: meshes returned by Mesh.smooth; films with a sharp reflex notch; contact pads overlapping along the boundary; a boundary edge counts as encroached when ANY site lies inside its diametral circle.",
    "C08": "Also: screening pairs with a tight tolerance (gate 1e-5).",
    "C09": "Also: the same Device meshed again (and an identically built one) gives the same mesh bit for bit and keeps its outlines; two-hole and decay-to-normal configurations; material sweep before the repeated run.",
    "C10": "Also: one mesh with > 2^15 edges through refresh sequences; a run without screening seeded from a run with screening; a twin pin set with equal counts; a rival solver on the same Device.",
    "C12": "Also: the accepted retry is the update for the reduced step (C02's long-double oracle on the retry workloads); gamma = 0 with steps beyond the stability limit.",
    "C13": "Also: an error raised inside update() reaches the caller of solve(); material sweep with screening before the monitored run.",
    "C14": "Also: film polygons with names of the user's choosing; every step a loaded object is moved to equals data/<s> of its file.",
    "C15": "Also: a stopped run's partial solution reports as many frame times as it has frames, each equal to the stored one; an earlier result at the requested path still held open by the caller.",
    "C16": "Also: neutral numbers (1, and 0.5, 3, 0.25) on either side of every operator; repeated evaluation at close times and at times whose Python hashes coincide (-1.0 / -2.0); leaves from one closure factory; use_cache=False operands.",
    "C17": "Also: thermalised undriven runs.",
    "C19": "Also: set operations whose result is not a simply-connected outline (ring, two pieces, nothing) are refused in every spelling.",
}
for _pid, _txt in EXTRA.items():
    if _pid in CHECKS and _txt not in CHECKS[_pid]["text"]:
        CHECKS[_pid]["text"] = CHECKS[_pid]["text"].rstrip() + " " + _txt


def main():
    props = [json.loads(l) for l in open(os.path.join(HERE, "properties.jsonl"))]
    checks = []
    for p in props:
        pid = p["id"]
        if pid not in CHECKS:
            continue
        c = CHECKS[pid]
        checks.append({
            "property_id": pid,
            "quick_cmd": f"./check {pid} --tier quick",
            "thorough_cmd": f"./check {pid} --tier thorough",
            "evidence_file": f"/verif/evidence/{pid}.json",
            "replay_cmd_template": f"./check {pid} --replay {{path}}",
            "engine": "vt",
            "level_claimed": {"category": c["category"], "text": c["text"], "design_ref": c["ref"]},
            "level_note": c["note"],
            "technique": c["technique"],
        })
    claimed = {c["property_id"] for c in checks}
    na = [x for x in NOT_APPLICABLE if x["property_id"] not in claimed]
    for p in props:
        if p["id"] not in claimed and p["id"] not in {x["property_id"] for x in na}:
            na.append({"property_id": p["id"], "reason": "check not built yet (work in progress); no claim is made"})
    man = {
        "version": 1,
        "setup_cmd": "true",
        "hooks": {
            "guard": "TDGL_VERIF",
            "enable": "no source hooks exist: monitors are harness-side wrappers installed at run time (vt/recorder.py); checks import the working tree by putting /repo first on sys.path",
            "baseline_off_cmd": "cd /repo && env -u TDGL_VERIF /venv/bin/python -m pytest -ra -q -p no:cacheprovider --timeout=900 --continue-on-collection-errors",
            "source_commits": [],
            "add_only": True,
        },
        "engines": [{
            "name": "vt",
            "path": "/verif/vt",
            "serves_properties": sorted(claimed),
            "kind_free_text": "runtime-monitoring harness: flight-recorder wrappers on the real tdgl functions, reference-model oracles (vt/ref), differential runs, fault injection; 16 worker subprocesses",
        }],
        "checks": checks,
        "notes": "Run with /venv/bin/python (3.12). ./check <ID> [--tier quick|thorough] [--replay path]; exit 0 held / 1 violation / 2 inconclusive. Known findings: known_findings.json (mechanism-keyed).",
        "not_applicable": na,
    }
    with open(os.path.join(HERE, "MANIFEST.json"), "w") as f:
        json.dump(man, f, indent=1)
    print("wrote MANIFEST.json with", len(checks), "checks;", len(na), "not claimed")


if __name__ == "__main__":
    main()
