#!/usr/bin/env python3
"""Builds /verif/seeded/<id>/{patch.diff,demo.py,notes.md,meta.json} from seeded/_incoming/<PROP>/ for every change whose
independent confirmation (/tmp/confirm/results/<id>.json, tools/confirm_mutant.sh) succeeded. caught_by is filled by
tools/mutant_matrix.sh (results in /tmp/confirm/matrix/<id>.<PROP>.rc)."""
import glob, json, os, re, shutil
INC = "/verif/seeded/_incoming"
MISSED_FIRST = {"C01-1", "C01-2", "C02-2", "C03-1", "C03-2", "C04-2", "C05-1", "C06-1", "C09-2", "C10-2", "C16-1", "C19-2", "C20-1"}
base_fail = open("/tmp/confirm/results/BASE.failing.txt").read() if os.path.exists("/tmp/confirm/results/BASE.failing.txt") else None
rows = []
for d in sorted(glob.glob(INC + "/*/")):
    prop = os.path.basename(d.rstrip("/"))
    for k in (1, 2, 3):
        patch = os.path.join(d, f"change_{k}_ported.diff")
        ported = os.path.exists(patch)
        if not ported:
            patch = os.path.join(d, f"change_{k}.diff")
        if not os.path.exists(patch):
            continue
        mid = f"{prop}-{k}"
        resf = f"/tmp/confirm/results/{mid}.json"
        if not os.path.exists(resf):
            continue
        res = json.load(open(resf))
        failing = f"/tmp/confirm/results/{mid}.failing.txt"
        same_fail = (base_fail is not None and os.path.exists(failing) and open(failing).read() == base_fail)
        ok = res["patch_applies"] and res["demo_rc_clean"] == 0 and res["demo_rc_mutant"] not in (0, -1) and same_fail
        if not ok:
            print("NOT KEPT", mid, res, same_fail)
            continue
        out = f"/verif/seeded/{mid}"
        os.makedirs(out, exist_ok=True)
        shutil.copy(patch, os.path.join(out, "patch.diff"))
        shutil.copy(os.path.join(d, f"demo_{k}.py"), os.path.join(out, "demo.py"))
        notes = os.path.join(d, f"notes_{k}.md")
        if os.path.exists(notes):
            shutil.copy(notes, os.path.join(out, "notes.md"))
        ntext = open(notes).read() if os.path.exists(notes) else ""
        caught = sorted(os.path.basename(f).split(".")[1] for f in glob.glob(f"/tmp/confirm/matrix/{mid}.*.rc") if open(f).read().strip() == "1")
        notcaught = sorted(os.path.basename(f).split(".")[1] for f in glob.glob(f"/tmp/confirm/matrix/{mid}.*.rc") if open(f).read().strip() == "0")
        first = [l.strip("# ").strip() for l in ntext.splitlines() if l.strip()][:1]
        meta = {
            "id": mid, "property": prop, "origin": "independent sub-agent given only the property text and a scratch worktree (round 1)",
            "title": first[0] if first else "", "ported_to_fixed_tree": ported,
            "needs_to_manifest": "see notes.md (written by the sub-agent: trigger conditions)",
            "confirmed": {"head": res["head"], "patch_applies_to_head": True, "demo_exit_without_change": res["demo_rc_clean"], "demo_exit_with_change": res["demo_rc_mutant"],
                          "repository_tests": "non-visualisation test files, failing set identical to the unchanged tree: " + res["tests_summary"].strip(),
                          "how": "tools/confirm_mutant.sh in a fresh git worktree of /repo HEAD (removed afterwards)"},
            "caught_by_quick_checks": caught, "not_caught_by": notcaught,
            "missed_by_first_version_of_the_check": mid in MISSED_FIRST,
        }
        json.dump(meta, open(os.path.join(out, "meta.json"), "w"), indent=1)
        rows.append((mid, prop, meta["title"][:90], caught, mid in MISSED_FIRST))
print(len(rows), "kept")
tab = ["| id | property | change | caught by (quick) | first missed -> check strengthened |", "|---|---|---|---|---|"]
for mid, prop, title, caught, mf in rows:
    tab.append(f"| {mid} | {prop} | {title} | {', '.join(caught) or '?'} | {'yes' if mf else ''} |")
open("/tmp/confirm/table.md", "w").write("\n".join(tab) + "\n")
