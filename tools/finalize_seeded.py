#!/usr/bin/env python3
"""Builds /verif/seeded/<id>/{patch.diff,demo.py,notes.md,meta.json} from seeded/_incoming/<PROP>/ for every change whose
independent confirmation (/tmp/confirm/results/<id>.json, tools/confirm_mutant.sh) succeeded. caught_by is filled by
tools/mutant_matrix.sh (results in /tmp/confirm/matrix/<id>.<PROP>.rc)."""
import glob, json, os, re, shutil
ALL_INCS = [("/verif/seeded/_incoming", "", 1), ("/verif/seeded/_incoming2", "b", 2), ("/verif/seeded/_incoming3", "c", 3), ("/verif/seeded/_incoming4", "d", 4), ("/verif/seeded/_incoming5", "e", 5), ("/verif/seeded/_incoming6", "f", 6), ("/verif/seeded/_incoming7", "g", 7), ("/verif/seeded/_incoming8", "h", 8)]
# only the rounds named in ROUNDS (default: the latest) are (re)built: the confirmation results of earlier rounds lived in /tmp
INCS = [x for x in ALL_INCS if str(x[2]) in os.environ.get("ROUNDS", "6").split(",")]
NEEDS = {
"C01-1": "callable terminal currents that go from non-zero to exactly zero on every terminal (switched-off pulse; or thermalisation with a ramp starting at 0)",
"C01-2": "sequence on ONE Device object: make_mesh, terminal_info()/solve, make_mesh with other boundary vertices, solve with non-zero currents",
"C02-1": "0 < gamma^2|psi| small: weakly inelastic film (gamma <~ 1e-2) or sites with tiny non-zero psi (catastrophic cancellation); gamma=0 and psi=0 unaffected",
"C02-2": "adaptive=True and a step whose first attempt is refused and a retry succeeds",
"C03-1": "set_link_exponents called at least twice with different potentials on one MeshOperators (time-dependent field or screening)",
"C03-2": "Mesh.smooth(k) with k >= 2 and the SOURCE mesh used again afterwards",
"C04-1": "include_screening=True and two runs in different gauges compared",
"C04-2": "in-place refresh path with a potential that returns to exactly zero (field pulse, or two calls on one MeshOperators)",
"C05-1": "adaptive=True and a solve step with a refused first attempt (retry)",
"C05-2": "final step index N an exact multiple of save_every",
"C06-1": "terminal_psi == 0 and a seed_solution whose psi is non-zero on the terminal sites",
"C06-2": "terminal_psi=None and refreshed operators (screening or time-dependent applied potential)",
"C07-1": "non-convex hole whose vertex mean lies outside the hole (U-shaped slot)",
"C07-2": "make_mesh() followed by translate(inplace=True) or the translation() context manager",
"C08-1": "time-dependent applied potential stated in units with tiny numerical values (mm with T)",
"C08-2": "non-zero terminal currents and a current-unit prefix different from the length-unit prefix (nm with uA)",
"C09-1": "include_screening=True and the same simulation under different numba thread counts",
"C09-2": ">= 4 terminals, numpy-scalar (e.g. time-dependent) currents, fresh processes with different PYTHONHASHSEED",
"C10-1": "first vector potential exactly zero and a later one non-zero (ramp from zero; screening with zero applied field)",
"C10-2": "include_screening=True; only the first screening iteration of each step from step 1 on",
"C11-1": "include_screening=True plus a resume from a screening seed",
"C11-2": "adaptive stepping, save_every < adaptive_window, > window steps, comparison against another save interval",
"C12-1": "adaptive=False and an update refused at dt_init that is cured by one multiplication",
"C12-2": "adaptive=True, past the warm-up window, at least one refused-and-retried update, proposal not pinned at dt_max",
"C13-1": "screening_step_drag == 1.0 with step size < 1",
"C13-2": "screening on and a step that really hits max_iterations_per_step",
"C14-1": "Layer with gamma == 0 (or u == 0) and an HDF5 round trip",
"C14-2": "number as LEFT operand of a time-dependent sub-expression plus a pickle / Solution-file round trip (wrong values from depth 2)",
"C15-1": "KeyboardInterrupt (not an error) delivered inside the frame writer after the group was created",
"C15-2": "KeyboardInterrupt in the frame writer at a saved step > 0 (buffer exactly full)",
"C16-1": "time-dependent leaf returning an array, on the left of an operator, array arguments, leaf shared or evaluation repeated at the same t",
"C16-2": "two-step sequence: pickle/copy/save the composite, then reuse the same in-memory object",
"C17-1": "include_screening=True and terminal_psi=None together on a mesh with unequal neighbouring cell areas",
"C17-2": "device with terminals and terminal_psi=None",
"C18-1": ">= 2 holes and a point inside a hole that is not the last one",
"C18-2": "scale with exactly one negative factor (mirror image)",
"C19-1": "callable currents balanced at t=0 and unbalanced later",
"C19-2": "seed computed in the same session and a different device derived without re-meshing (copy with another layer, or in-place edit)",
"C20-1": "Layer with z0 != 0",
"C20-2": "loop_center with non-zero x or y",
}
ROUND = 1
MISSED_FIRST = {"C01-1", "C01-2", "C02-2", "C03-1", "C03-2", "C04-2", "C05-1", "C06-1", "C09-2", "C10-2", "C16-1", "C19-2", "C20-1"}
base_fails = [open(f).read() for f in ("/tmp/confirm/results/BASE.failing.txt", "/tmp/confirm/results/BASE2.failing.txt") if os.path.exists(f)]
MISSED_FIRST |= set(l.strip() for l in open("/verif/seeded/missed_first.txt")) if os.path.exists("/verif/seeded/missed_first.txt") else set()


def needs_from_notes(path):
    """the 'what is needed for it to manifest' paragraph of the sub-agent's notes"""
    if not os.path.exists(path):
        return "see notes.md"
    lines = open(path).read().splitlines()
    for i, l in enumerate(lines):
        if l.startswith("#") and re.search(r"needed|manifest|trigger", l, re.I):
            body = []
            for m in lines[i + 1:]:
                if m.startswith("#"):
                    break
                body.append(m.strip())
            t = re.sub(r"\s+", " ", " ".join(x for x in body if x))
            if t:
                return t[:600]
    m = re.search(r"(Trigger|manifests? only|It manifests)[:\s](.{20,500})", open(path).read(), re.I | re.S)
    return re.sub(r"\s+", " ", m.group(0))[:500] if m else "see notes.md"

import subprocess
WT = "/tmp/regenwt"
subprocess.run(["git", "-C", "/repo", "worktree", "remove", "--force", WT], capture_output=True)
subprocess.run(["git", "-C", "/repo", "worktree", "add", "--detach", WT, "HEAD", "-q"], check=True)


def regen(patch):
    """the same change as a diff against the current /repo HEAD (so that plain `git apply` works)"""
    subprocess.run(["git", "-C", WT, "reset", "-q", "--hard", "HEAD"], check=True)
    r = subprocess.run(["git", "-C", WT, "apply", "--3way", patch], capture_output=True)
    if r.returncode != 0:
        r = subprocess.run(["git", "-C", WT, "apply", patch], capture_output=True)
        if r.returncode != 0:
            return None
    subprocess.run(["git", "-C", WT, "reset", "-q"], check=True)
    out = subprocess.run(["git", "-C", WT, "diff"], capture_output=True, text=True).stdout
    return out or None


rows = []
for d, tag, rnd in [(d, tag, rnd) for (inc, tag, rnd) in INCS for d in sorted(glob.glob(inc + "/*/"))]:
    prop = os.path.basename(d.rstrip("/"))
    for k in (1, 2, 3, 4):
        patch = os.path.join(d, f"change_{k}_ported.diff")
        ported = os.path.exists(patch)
        if not ported:
            patch = os.path.join(d, f"change_{k}.diff")
        if not os.path.exists(patch):
            continue
        mid = f"{prop}-{tag}{k}"
        resf = f"/tmp/confirm/results/{mid}.json"
        if not os.path.exists(resf):
            continue
        res = json.load(open(resf))
        failing = f"/tmp/confirm/results/{mid}.failing.txt"
        same_fail = (os.path.exists(failing) and open(failing).read() in base_fails)
        ok = res["patch_applies"] and res["demo_rc_clean"] == 0 and res["demo_rc_mutant"] not in (0, -1) and same_fail
        if not ok:
            print("NOT KEPT", mid, res, same_fail)
            continue
        out = f"/verif/seeded/{mid}"
        os.makedirs(out, exist_ok=True)
        fresh = regen(patch)
        if fresh is None:
            print("PATCH NO LONGER APPLIES", mid)
            shutil.copy(patch, os.path.join(out, "patch.diff"))
        else:
            open(os.path.join(out, "patch.diff"), "w").write(fresh)
        shutil.copy(os.path.join(d, f"demo_{k}.py"), os.path.join(out, "demo.py"))
        notes = os.path.join(d, f"notes_{k}.md")
        if os.path.exists(notes):
            shutil.copy(notes, os.path.join(out, "notes.md"))
        ntext = open(notes).read() if os.path.exists(notes) else ""
        caught = sorted(os.path.basename(f).split(".")[1] for f in glob.glob(f"/tmp/confirm/matrix/{mid}.*.rc") if open(f).read().strip() == "1")
        notcaught = sorted(os.path.basename(f).split(".")[1] for f in glob.glob(f"/tmp/confirm/matrix/{mid}.*.rc") if open(f).read().strip() == "0")
        first = [l.strip("# ").strip() for l in ntext.splitlines() if l.strip()][:1]
        meta = {
            "id": mid, "property": prop, "origin": f"independent sub-agent given only the property text and a scratch worktree (round {rnd}" + (", told to avoid the mechanisms of the earlier rounds)" if rnd >= 2 else ")"),
            "title": first[0] if first else "", "ported_to_fixed_tree": ported,
            "needs_to_manifest": NEEDS.get(mid) or needs_from_notes(notes),
            "confirmed": {"head": res["head"], "patch_applies_to_head": True, "demo_exit_without_change": res["demo_rc_clean"], "demo_exit_with_change": res["demo_rc_mutant"],
                          "repository_tests": "non-visualisation test files, failing set identical to the unchanged tree: " + res["tests_summary"].strip(),
                          "how": "tools/confirm_mutant.sh in a fresh git worktree of /repo HEAD (removed afterwards)"},
            "caught_by_quick_checks": caught, "not_caught_by": notcaught,
            "missed_by_first_version_of_the_check": mid in MISSED_FIRST,
        }
        json.dump(meta, open(os.path.join(out, "meta.json"), "w"), indent=1)
        rows.append((mid, prop, meta["title"][:90].replace("|", "\\|"), caught, mid in MISSED_FIRST))
subprocess.run(["git", "-C", "/repo", "worktree", "remove", "--force", WT], capture_output=True)
print(len(rows), "kept")
rows = []
def _key(mid):
    prop, tag = mid.split("-")
    return (prop, "" if tag[0].isdigit() else tag[0], tag)
for mf in sorted(glob.glob("/verif/seeded/C*/meta.json"), key=lambda f: _key(os.path.basename(os.path.dirname(f)))):
    m = json.load(open(mf))
    rows.append((m["id"], m["property"], m["title"][:90].replace("|", "\\|"), m.get("caught_by_quick_checks", []), m.get("missed_by_first_version_of_the_check")))
tab = ["| id | property | change | caught by (quick) | first missed -> check strengthened |", "|---|---|---|---|---|"]
for mid, prop, title, caught, mf in rows:
    tab.append(f"| {mid} | {prop} | {title} | {', '.join(caught) or '?'} | {'yes' if mf else ''} |")
open("/tmp/confirm/table.md", "w").write("\n".join(tab) + "\n")
print(len(rows), "rows in table")
