#!/bin/bash
# tools/collect4.sh PROP... (ROUND=4|5) : copy a finished round-4 agent's deliverables and remove its worktree
cd /verif; R=${ROUND:-7}
for id in "$@"; do mkdir -p seeded/_incoming$R/$id; cp /tmp/wt$R/$id/out/change_[123].diff /tmp/wt$R/$id/out/demo_[123].py /tmp/wt$R/$id/out/notes_[123].md seeded/_incoming$R/$id/ && git -C /repo worktree remove --force /tmp/wt$R/$id; echo "$id $(ls seeded/_incoming$R/$id | wc -l)"; done
