#!/bin/bash
# tools/collect4.sh PROP... : copy a finished round-4 agent's deliverables and remove its worktree
cd /verif
for id in "$@"; do mkdir -p seeded/_incoming4/$id; cp /tmp/wt4/$id/out/change_[123].diff /tmp/wt4/$id/out/demo_[123].py /tmp/wt4/$id/out/notes_[123].md seeded/_incoming4/$id/ && git -C /repo worktree remove --force /tmp/wt4/$id; echo "$id $(ls seeded/_incoming4/$id | wc -l)"; done
