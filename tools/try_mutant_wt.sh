#!/bin/bash
# tools/try_mutant_wt.sh <patch.diff> <PROP> [tier] -- like try_mutant.sh but in a private worktree of /repo HEAD
# (safe to run concurrently; /repo's working tree is not touched)
P=$(readlink -f $1); ID=$2; TIER=${3:-quick}
WT=/tmp/mutwt_$$
git -C /repo worktree add --detach $WT HEAD -q || exit 9
cd $WT
if ! git apply --3way "$P" 2>/tmp/apply_$$.err; then
  if ! git apply "$P" 2>>/tmp/apply_$$.err; then echo "PATCH DOES NOT APPLY"; cat /tmp/apply_$$.err; cd /; git -C /repo worktree remove --force $WT; exit 8; fi
fi
cd ${VERIF_DIR:-/verif} && VERIF_REPO=$WT ./check "$ID" --tier "$TIER" --no-evidence > /tmp/mutwt_$$.out 2>&1
rc=$?
grep -E "kind=" /tmp/mutwt_$$.out | head -2 | cut -c1-400
tail -2 /tmp/mutwt_$$.out | head -1
git -C /repo worktree remove --force $WT
rm -f /tmp/mutwt_$$.out /tmp/apply_$$.err
echo "exit=$rc"
