#!/bin/bash
# tools/mutant_matrix.sh : run every incoming mutant against its owning quick check (private worktrees), 3 at a time
mkdir -p /tmp/confirm/matrix
cd /verif
for d in seeded/_incoming/*/; do
  P=$(basename $d)
  for k in 1 2 3; do
    patch=$d/change_$k.diff
    [ -f $d/change_${k}_ported.diff ] && patch=$d/change_${k}_ported.diff
    [ -f $patch ] || continue
    echo "$P-$k $patch $P"
  done
done > /tmp/confirm/matrix_todo.txt
cat /tmp/confirm/matrix_todo.txt | xargs -P 3 -L 1 bash -c 'out=$(tools/try_mutant_wt.sh $1 $2 2>&1); echo "$out" > /tmp/confirm/matrix/$0.$2.log; echo "$out" | tail -1 | sed "s/exit=//" > /tmp/confirm/matrix/$0.$2.rc'
echo MATRIX_DONE
