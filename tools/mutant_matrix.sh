#!/bin/bash
# tools/mutant_matrix.sh : run every incoming mutant against its owning quick check (private worktrees), 3 at a time
mkdir -p /tmp/confirm/matrix
cd /verif
INC=${1:-seeded/_incoming}; TAG=${2:-}
for d in $INC/*/; do
  P=$(basename $d)
  for k in 1 2 3 4; do
    patch=$d/change_$k.diff
    [ -f $d/change_${k}_ported.diff ] && patch=$d/change_${k}_ported.diff
    [ -f $patch ] || continue
    [ -f /tmp/confirm/matrix/$P-$TAG$k.$P.rc ] && [ "${FORCE:-0}" != 1 ] && continue
    echo "$P-$TAG$k $patch $P"
  done
done > /tmp/confirm/matrix_todo.txt
cat /tmp/confirm/matrix_todo.txt | xargs -P ${PAR:-2} -L 1 bash -c 'out=$(tools/try_mutant_wt.sh $1 $2 2>&1); echo "$out" > /tmp/confirm/matrix/$0.$2.log; echo "$out" | tail -1 | sed "s/exit=//" > /tmp/confirm/matrix/$0.$2.rc'
echo MATRIX_DONE
