#!/usr/bin/env python3
"""Development-time self-test (not registered in MANIFEST): my own list of realistic
semantic edits ("breaks it must catch" of DESIGN.md section 4). Each edit is applied to
/repo's working tree, the owning property's quick check is run (exit 1 expected), and the
tree is restored with `git checkout`. Usage: selftest/mutants.py [name-substring ...]"""
import json
import os
import subprocess
import sys
import time

REPO = "/repo"
M = []


def m(name, prop, path, old, new, also=()):
    M.append(dict(name=name, prop=prop, path=path, old=old, new=new, also=list(also)))


S = "tdgl/solver/solver.py"
O = "tdgl/finite_volume/operators.py"
R = "tdgl/solver/runner.py"
U = "tdgl/finite_volume/util.py"

# ---- C01
m("c01_jscale_factor", "C01", S, "J_scale = 4 * ((ureg(current_units)", "J_scale = 2 * ((ureg(current_units)")
m("c01_terminal_length", "C01", S, "current_density = (-1 / terminal.length) * sum(", "current_density = (-1 / (2 * terminal.length)) * sum(")
m("c01_boundary_half_weight", "C01", O, "boundary_edges_length / (2 * mesh.areas[boundary_edges[:, 1]]),", "boundary_edges_length / (mesh.areas[boundary_edges[:, 1]]),", also=["C03"])
m("c01_drop_dAdt_normal_current", "C01", S, "normal_current = -(operators.mu_gradient @ mu) - dA_dt", "normal_current = -(operators.mu_gradient @ mu)")
m("c01_drop_dAdt_rhs", "C01", S, "rhs = (operators.divergence @ (supercurrent - dA_dt)) - (", "rhs = (operators.divergence @ (supercurrent)) - (")
m("c01_mu_boundary_not_refreshed", "C01", S, "            if current_density != terminal_current_densities[terminal.name]:", "            if terminal_current_densities[terminal.name] == 0 and current_density != 0:")
# ---- C02
m("c02_other_root", "C02", S, "new_sq_psi = (2 * w2) / (two_c_1 + xp.sqrt(discriminant))", "new_sq_psi = (2 * w2) / (two_c_1 - xp.sqrt(discriminant))")
m("c02_sign_temporal_link", "C02", S, "U = xp.exp(-1j * mu * dt)", "U = xp.exp(1j * mu * dt)", also=["C04"])
m("c02_sqrt_dropped", "C02", S, "* xp.sqrt(1 + gamma**2 * abs_sq_psi)", "* (1 + gamma**2 * abs_sq_psi)")
m("c02_sign_nonlinear", "C02", S, "* ((epsilon - abs_sq_psi) * psi + psi_laplacian @ psi)", "* ((abs_sq_psi - epsilon) * psi + psi_laplacian @ psi)", also=["C17"])
m("c02_dt_times_u", "C02", S, "+ (dt / u)", "+ (dt * u)")
m("c02_any_to_all", "C02", S, "if xp.any(discriminant < 0):", "if xp.all(discriminant < 0):")
m("c02_wrong_c", "C02", S, "c = w.real * z.real + w.imag * z.imag", "c = w.real * z.real - w.imag * z.imag")
# ---- C03
m("c03_div_same_sign", "C03", O, "[weights / mesh.areas[edges0], -weights / mesh.areas[edges1]]", "[weights / mesh.areas[edges0], weights / mesh.areas[edges1]]", also=["C01"])
m("c03_conj_missing", "C03", O, "            weights * link_variable_weights.conjugate() / areas1,", "            weights * link_variable_weights / areas1,", also=["C04", "C10"])
m("c03_wrong_endpoint_area", "C03", O, "            -weights / areas0,\n            -weights / areas1,", "            -weights / areas1,\n            -weights / areas0,", also=["C17"])
# ---- C04
m("c04_supercurrent_wrong_endpoint", "C04", O, "return (psi.conjugate()[self.edges[:, 0]] * (self.psi_gradient @ psi)).imag", "return (psi.conjugate()[self.edges[:, 1]] * (self.psi_gradient @ psi)).imag")
m("c04_refresh_plus_i", "C04", O, "                -1j * xp.einsum(\"ij, ij -> i\", self.link_exponents, directions)", "                1j * xp.einsum(\"ij, ij -> i\", self.link_exponents, directions)", also=["C10"])
# ---- C05
m("c05_stop_gt", "C05", R, "                    if self.time >= end_time:\n                        break", "                    if self.time > end_time:\n                        break")
m("c05_time_uses_label_dt", "C05", R, "                    self.time += self.dt", "                    self.time += dt")
m("c05_running_step_not_cleared", "C05", R, "    def clear(self) -> None:\n        \"\"\"Clear the buffer.\"\"\"\n        self.step = 0", "    def clear(self) -> None:\n        \"\"\"Clear the buffer.\"\"\"\n        self.step = self.step % self.buffer_size")
m("c05_final_save_inverted", "C05", R, "            if save and (i % self.options.save_every):\n                try:", "            if save and not (i % self.options.save_every):\n                try:")
# ---- C06
m("c06_fix_psi_always", "C06", S, "            fix_psi=(terminal_psi is not None),", "            fix_psi=True,")
m("c06_init_not_applied", "C06", S, "        if terminal_psi is not None:\n            psi_init[normal_boundary_index] = terminal_psi", "        if terminal_psi is not None and terminal_psi == 0:\n            psi_init[normal_boundary_index] = terminal_psi")
m("c06_refresh_overwrites_fixed_rows", "C06", O, "            if self.fix_psi:\n                free_rows = self.laplacian_free_rows[: len(self.laplacian_link_rows)]", "            if False:\n                free_rows = self.laplacian_free_rows[: len(self.laplacian_link_rows)]", also=["C10"])
# ---- C07
m("c07_dual_uses_wrong_center", "C07", U, "            dual_lengths[i] = np.linalg.norm(dual_sites[indices[0]] - edge_centers[i])", "            dual_lengths[i] = 2 * np.linalg.norm(dual_sites[indices[0]] - edge_centers[i])", also=["C01"])
m("c07_boundary_counts", "C07", U, "    return edges, counts == 1", "    return edges, counts != 2")
m("c07_concave_not_subtracted", "C07", U, "            areas[site] -= triangle_area", "            areas[site] -= 0 * triangle_area")
# ---- C08
m("c08_A_scale_missing_xi", "C08", S, "(ureg(field_units) * length_units / (Bc2 * xi * length_units))", "(ureg(field_units) * length_units / (Bc2 * length_units))")
m("c08_areas_xi", "C08", S, "self.areas = A_scale.magnitude * mesh.areas * xi**2", "self.areas = A_scale.magnitude * mesh.areas * xi", also=["C13"])
m("c08_solution_K0_units", "C08", "tdgl/solution/solution.py", 'K0 = self.device.K0.to(f"{self.current_units} / {self.device.length_units}")', 'K0 = self.device.K0.to(f"{self.current_units} / um")')
# ---- C09
m("c09_random_init", "C09", S, "        psi_init = np.ones(len(mesh.sites), dtype=np.complex128)", "        psi_init = np.ones(len(mesh.sites), dtype=np.complex128) * (1 - 1e-12 * np.random.default_rng().random(len(mesh.sites)))", also=["C17"])
# ---- C10
m("c10_free_rows_missliced", "C10", O, "                free_rows = self.laplacian_free_rows[: len(self.laplacian_link_rows)]", "                free_rows = self.laplacian_free_rows[len(self.laplacian_link_rows) :]")
m("c10_refresh_once", "C10", S, "            if not xp.allclose(current_A_applied, self.link_A_applied):", "            if step == 0 and not xp.allclose(current_A_applied, self.link_A_applied):")
# ---- C11
m("c11_seed_drops_induced", "C11", S, '                "induced_vector_potential": seed_data.induced_vector_potential,', '                "induced_vector_potential": np.zeros((num_edges, 2)),')
m("c11_probe_feedback", "C11", S, "            running_state.append(\"mu\", mu[self.probe_points])", "            mu = mu - mu[self.probe_points][0]\n            running_state.append(\"mu\", mu[self.probe_points])")
# ---- C12
m("c12_window_head", "C12", S, "1e-10, np.mean(self.d_psi_sq_vals[-window:])", "1e-10, np.mean(self.d_psi_sq_vals[:window])")
m("c12_missing_clip", "C12", S, "self.tentative_dt = np.clip(0.5 * (new_dt + dt), 0, self.dt_max)", "self.tentative_dt = 0.5 * (new_dt + dt)")
m("c12_mean_to_max", "C12", S, "1e-10, np.mean(self.d_psi_sq_vals[-window:])", "1e-10, np.max(self.d_psi_sq_vals[-window:])")
m("c12_retry_never_trips", "C12", S, "if not options.adaptive or retries > options.max_solve_retries:", "if not options.adaptive or retries > 10 * options.max_solve_retries + 50:")
# ---- C13
m("c13_inverse_square", "C13", "tdgl/solver/screening.py", "                tmp += J_site[j, k] * site_areas[j] / dr\n            A_induced[i, k] = tmp\n\n\nget_A_induced_cupy", "                tmp += J_site[j, k] * site_areas[j] / (dr * dr)\n            A_induced[i, k] = tmp\n\n\nget_A_induced_cupy")
m("c13_exit_one_early", "C13", S, "            if screening_error < options.screening_tolerance:\n                break", "            if screening_error < 10 * options.screening_tolerance:\n                break")
m("c13_error_wrong_iterate", "C13", S, "            numerator = xp.linalg.norm(dA, axis=1)", "            numerator = xp.linalg.norm(velocity[-1], axis=1)")
# ---- C14
m("c14_layer_z0_dropped", "C14", "tdgl/device/layer.py", '        h5_group.attrs["z0"] = self.z0\n', "")
m("c14_hole_order", "C14", "tdgl/device/device.py", "                    for _, grp in sorted(f[\"holes\"].items(), key=itemgetter(0))", "                    for _, grp in sorted(f[\"holes\"].items(), key=itemgetter(0))[:1]")
m("c14_mesh_dtype", "C14", "tdgl/finite_volume/mesh.py", '                areas=np.array(h5group["areas"]),', '                areas=np.array(h5group["areas"], dtype=np.float32),')
# ---- C15
m("c15_tmp_not_removed", "C15", R, "            os.remove(self.tmp_path)\n        if self.tempdir is not None:", "            pass\n        if self.tempdir is not None:")
m("c15_mode_w", "C15", R, '                file = h5py.File(file_path, "x")', '                file = h5py.File(file_path, "w")')
m("c15_tempdir_not_cleaned", "C15", R, "        if self.tempdir is not None:\n            self.tempdir.cleanup()", "        if self.tempdir is not None and False:\n            self.tempdir.cleanup()")
# ---- C16
m("c16_rsub_order", "C16", "tdgl/parameter.py", '        """other - self"""\n        return CompositeParameter(other, self, operator.sub)', '        """other - self"""\n        return CompositeParameter(self, other, operator.sub)')
m("c16_flag_not_propagated", "C16", "tdgl/parameter.py", "        if isinstance(self.right, Parameter) and self.right.time_dependent:\n            self.time_dependent = True", "        if isinstance(self.right, Parameter) and self.right.time_dependent:\n            pass")
# ---- C17
m("c17_spurious_dAdt", "C17", S, "        dA_dt = 0.0\n        current_A_applied = self.current_A_applied", "        dA_dt = 1e-9\n        current_A_applied = self.current_A_applied")
# ---- C19
m("c19_epsilon_check_loose", "C19", S, "        if np.any(epsilon > 1):", "        if np.any(epsilon > 1.0005):")
m("c19_seed_check_dropped", "C19", S, "            if self.seed_solution.device != self.device:", "            if False and self.seed_solution.device != self.device:")
m("c19_dt_check_dropped", "C19", "tdgl/solver/options.py", "        if self.dt_init > self.dt_max:", "        if False and self.dt_init > self.dt_max:")
# ---- C20
m("c20_exponent", "C20", "tdgl/em.py", "                * (dx * dx + dy * dy + dz * dz) ** (-3 / 2)\n            )\n            Jx_dy += pref * Jx[k] * dy\n            Jy_dx += pref * Jy[k] * dx\n            Jx_dz", "                * (dx * dx + dy * dy + dz * dz) ** (-5 / 2)\n            )\n            Jx_dy += pref * Jx[k] * dy\n            Jy_dx += pref * Jy[k] * dx\n            Jx_dz")
m("c20_sign_component", "C20", "tdgl/em.py", "        B_out[i, 1] = -Jx_dz", "        B_out[i, 1] = Jx_dz")
m("c20_convert_mu0", "C20", "tdgl/em.py", '        value = (value / ureg("mu0")).to(new_units)', '        value = (value / ureg("mu0") / 2).to(new_units)')


def run(cmd, **kw):
    return subprocess.run(cmd, shell=True, capture_output=True, text=True, **kw)


def main():
    sel = sys.argv[1:]
    if run("git -C /repo diff --quiet").returncode != 0:
        print("REPO DIRTY - abort")
        return 2
    results = []
    for mu in M:
        if sel and not any(s in mu["name"] or s == mu["prop"] for s in sel):
            continue
        path = os.path.join(REPO, mu["path"])
        src = open(path).read()
        if src.count(mu["old"]) != 1:
            print(f"{mu['name']}: pattern occurs {src.count(mu['old'])} times - SKIP")
            results.append(dict(name=mu["name"], status="pattern_mismatch"))
            continue
        open(path, "w").write(src.replace(mu["old"], mu["new"]))
        try:
            caught = []
            for prop in [mu["prop"]] + mu["also"]:
                t0 = time.time()
                r = run(f"cd /verif && ./check {prop} --no-evidence", timeout=3000)
                kinds = [l.strip()[:150] for l in r.stdout.splitlines() if l.strip().startswith("kind=")][:2]
                if r.returncode == 1:
                    caught.append(prop)
                print(f"{mu['name']:36s} {prop} exit={r.returncode} {time.time() - t0:5.0f}s {kinds[:1]}", flush=True)
            results.append(dict(name=mu["name"], prop=mu["prop"], caught_by=caught, caught=mu["prop"] in caught))
        finally:
            run("git -C /repo checkout -- .")
    missed = [r["name"] for r in results if r.get("caught") is False]
    print("MISSED by owning property:", missed)
    with open("/verif/selftest/last_results.json", "w") as f:
        json.dump(results, f, indent=1)
    return 0


if __name__ == "__main__":
    sys.exit(main())
