"""Workload zoo: plain-JSON specs -> tdgl objects, and seeded generators of specs.

Nothing here is an oracle; it only builds inputs through the public API."""
import math

import numpy as np


# ----------------------------------------------------------------------------
# shapes
# ----------------------------------------------------------------------------
def shape_points(s):
    from tdgl.geometry import box, circle, ellipse

    k = s["kind"]
    c = tuple(s.get("center", (0.0, 0.0)))
    if k == "box":
        return box(s["w"], s.get("h"), points=s.get("points", 41), center=c, angle=s.get("angle", 0))
    if k == "circle":
        return circle(s["r"], points=s.get("points", 30), center=c)
    if k == "ellipse":
        return ellipse(s["a"], s["b"], points=s.get("points", 40), center=c, angle=s.get("angle", 0))
    if k == "points":
        return np.asarray(s["xy"], dtype=float)
    raise ValueError(k)


def build_polygon(s, name=None):
    import tdgl

    name = s.get("name", name)
    if s["kind"] == "union":
        parts = [build_polygon(p, name) for p in s["parts"]]
        poly = parts[0].union(*parts[1:], name=name)
    elif s["kind"] == "difference":
        parts = [build_polygon(p, name) for p in s["parts"]]
        poly = parts[0].difference(*parts[1:], name=name)
    else:
        poly = tdgl.Polygon(name, points=shape_points(s))
    if s.get("dedupe"):
        import tdgl

        pts = np.asarray(poly.points)[:-1]
        scale_ = float(np.ptp(pts, axis=0).max())
        keep = [0]
        for k_ in range(1, len(pts)):
            if np.hypot(*(pts[k_] - pts[keep[-1]])) > 1e-9 * scale_:
                keep.append(k_)
        if len(keep) > 1 and np.hypot(*(pts[keep[-1]] - pts[keep[0]])) <= 1e-9 * scale_:
            keep.pop()
        poly = tdgl.Polygon(name, points=pts[keep])
    if s.get("resample"):
        poly = poly.resample(int(s["resample"]))
    if s.get("buffer") is not None:
        poly = poly.buffer(s["buffer"])
    poly.name = name
    if s.get("mesh_flag") is not None:
        # Polygon.mesh as it is inherited when a polygon (or a copy / transform of one) was used as a terminal before
        poly.mesh = bool(s["mesh_flag"])
    return poly


def build_device(spec, mesh=True):
    import tdgl

    L = spec["layer"]
    layer = tdgl.Layer(
        coherence_length=L["xi"],
        london_lambda=L["lam"],
        thickness=L["d"],
        gamma=L.get("gamma", 10.0),
        u=L.get("u", 5.79),
        z0=L.get("z0", 0.0),
        conductivity=L.get("conductivity"),
    )
    film = build_polygon(spec["film"], "film")
    holes = [build_polygon(h, h.get("name", f"hole{i}")) for i, h in enumerate(spec.get("holes", []))]
    terms = [build_polygon(t, t["name"]) for t in spec.get("terminals", [])]
    probes = spec.get("probes")
    if spec.get("offset"):
        dx, dy = spec["offset"]
        for poly in [film] + holes + terms:
            poly.translate(dx, dy, inplace=True)
        if probes:
            probes = [[x + dx, y + dy] for x, y in probes]
    device = tdgl.Device(
        spec.get("name", "dev"),
        layer=layer,
        film=film,
        holes=holes,
        terminals=terms,
        probe_points=probes,
        length_units=spec.get("length_units", "um"),
    )
    if mesh:
        m = spec.get("mesh", {})
        device.make_mesh(
            max_edge_length=m.get("max_edge_length"),
            min_points=m.get("min_points"),
            smooth=m.get("smooth", 0),
        )
    return device


def gen_corbino(rng, size="small", gamma=None):
    """Corbino-like disk: circular film with a central hole; terminal `source` covers the whole rim of
    the HOLE, terminal `drain` a stretch of the outer rim."""
    layer = gen_layer(rng, gamma=gamma)
    xi_ = layer["xi"]
    tgt = {"tiny": (3.0, 1.0), "small": (5.0, 0.9), "medium": (8.0, 0.8)}[size]
    R = _r(rng, 0.9, 1.2) * tgt[0] * xi_ / 2
    r = _r(rng, 0.3, 0.4) * R
    mel = tgt[1] * xi_ * _r(rng, 0.85, 1.1)
    n_out = int(2 * math.pi * R / mel) + 10
    n_in = max(10, int(2 * math.pi * r / mel) + 6)
    cx, cy = _r(rng, -0.05, 0.05) * R, _r(rng, -0.05, 0.05) * R
    spec = {"layer": layer, "length_units": "um", "probes": None,
            "film": {"kind": "circle", "r": R, "points": n_out},
            "holes": [{"kind": "circle", "r": r, "center": [cx, cy], "points": n_in, "name": "hole0"}],
            "terminals": [
                {"kind": "circle", "r": 1.08 * r, "center": [cx, cy], "points": 4 * n_in, "name": "source", "w": 2 * r, "h": 2 * r},
                {"kind": "box", "w": 0.5 * R, "h": 1.1 * R, "center": [R, 0.0], "points": 12, "name": "drain"},
            ],
            "mesh": {"max_edge_length": mel, "min_points": None, "smooth": 0}}
    return spec


def scale_device_spec(spec, f, length_units):
    """Same physical device in other length units: every length multiplied by f."""
    import copy

    s = copy.deepcopy(spec)

    def sc_shape(sh):
        for key in ("w", "h", "r", "a", "b", "buffer"):
            if sh.get(key) is not None:
                sh[key] = sh[key] * f
        if "center" in sh:
            sh["center"] = [sh["center"][0] * f, sh["center"][1] * f]
        if "xy" in sh:
            sh["xy"] = (np.asarray(sh["xy"]) * f).tolist()
        for p in sh.get("parts", []):
            sc_shape(p)

    sc_shape(s["film"])
    for h in s.get("holes", []):
        sc_shape(h)
    for t in s.get("terminals", []):
        sc_shape(t)
    if s.get("probes"):
        s["probes"] = (np.asarray(s["probes"]) * f).tolist()
    for key in ("xi", "lam", "d", "z0"):
        s["layer"][key] = s["layer"][key] * f
    if s.get("mesh", {}).get("max_edge_length") is not None:
        s["mesh"]["max_edge_length"] *= f
    s["length_units"] = length_units
    return s


# ----------------------------------------------------------------------------
# generators
# ----------------------------------------------------------------------------
def _r(rng, lo, hi):
    return float(rng.uniform(lo, hi))


def gen_layer(rng, xi=None, gamma=None, u=None):
    return {
        "xi": xi if xi is not None else float(rng.choice([0.5, 1.0, 0.8])),
        "lam": float(rng.choice([2.0, 1.0, 4.0])),
        "d": float(rng.choice([0.1, 0.05, 0.2])),
        "gamma": float(gamma if gamma is not None else rng.choice([0.0, 0.1, 1.0, 10.0])),
        "u": float(u if u is not None else rng.choice([1.0, 5.79])),
        "z0": 0.0,
    }


def gen_device(rng, n_terminals=2, n_holes=0, probes=2, size="small", film_kind=None,
               gamma=None, u=None, smooth=None, xi=None, angle=None):
    """Random device spec. Geometry is expressed in units of length with xi ~ 0.5-1.

    Terminals are thin boxes straddling the film's left/right/top/bottom edges
    (box-like films only). Sizes: small ~40-120 sites, medium ~150-400, large ~800+.
    """
    layer = gen_layer(rng, xi=xi, gamma=gamma, u=u)
    xi_ = layer["xi"]
    if film_kind is None:
        film_kind = rng.choice(["box", "box", "ellipse", "cross"]) if n_terminals == 0 else "box"
    tgt = {"tiny": (3.0, 1.0), "small": (5.0, 0.9), "medium": (8.0, 0.8), "large": (14.0, 0.7)}[size]
    W = _r(rng, 0.9, 1.2) * tgt[0] * xi_
    H = _r(rng, 0.55, 0.9) * W
    mel = tgt[1] * xi_ * _r(rng, 0.85, 1.1)
    npts = int(2 * (W + H) / mel * _r(rng, 0.6, 1.0)) + 8
    ang = 0.0 if angle is None else angle
    spec = {"layer": layer, "length_units": "um", "holes": [], "terminals": [], "probes": None}
    if film_kind == "box":
        spec["film"] = {"kind": "box", "w": W, "h": H, "points": npts, "angle": ang}
    elif film_kind == "ellipse":
        spec["film"] = {"kind": "ellipse", "a": W / 2, "b": H / 2, "points": npts, "angle": ang}
    elif film_kind == "cross":
        spec["film"] = {
            "kind": "union",
            "parts": [
                {"kind": "box", "w": W, "h": H * 0.45, "points": npts},
                {"kind": "box", "w": W * 0.4, "h": H, "points": npts, "center": [_r(rng, -0.1, 0.1) * W, 0.0]},
            ],
            "resample": int(npts * 1.3),
        }
    elif film_kind == "L":
        spec["film"] = {
            "kind": "union",
            "parts": [
                {"kind": "box", "w": W, "h": H * 0.4, "points": npts, "center": [0.0, -0.3 * H]},
                {"kind": "box", "w": W * 0.35, "h": H, "points": npts, "center": [-0.325 * W, 0.0]},
            ],
            # (the raw union keeps the doubled corner vertices of box(): on some draws Triangle then runs into internal errors and
            # allocates without bound - a third-party failure before any property is in play; an outline without (near-)repeated
            # vertices avoids it)
            "dedupe": True,
        }
    else:
        raise ValueError(film_kind)
    # holes
    for k in range(n_holes):
        cx = (-0.22 + 0.44 * k) * W if n_holes > 1 else _r(rng, -0.08, 0.08) * W
        cy = _r(rng, -0.05, 0.05) * H
        rr = _r(rng, 0.09, 0.13) * min(W, H)
        if film_kind == "cross":
            cx, cy, rr = cx * 0.3, cy, 0.07 * min(W, H)
        if rng.random() < 0.5:
            h = {"kind": "circle", "r": rr, "center": [cx, cy], "points": int(rng.integers(10, 20))}
        elif rng.random() < 0.5:
            h = {"kind": "ellipse", "a": rr, "b": rr * 0.7, "center": [cx, cy], "points": int(rng.integers(12, 20))}
        else:
            h = {"kind": "box", "w": 1.6 * rr, "h": 1.3 * rr, "center": [cx, cy], "points": int(rng.integers(12, 20))}
        h["name"] = f"hole{k}"
        spec["holes"].append(h)
    # terminals on a box film (unrotated coordinates; rotated with the film)
    if n_terminals:
        assert film_kind == "box"
        sides = ["left", "right", "top", "bottom"][:n_terminals] if n_terminals > 2 else ["left", "right"]
        names = ["source", "drain", "t3", "t4"]
        for k, side in enumerate(sides):
            frac = _r(rng, 0.31, 0.77)
            # the terminal must cover at least one boundary edge centre of the mesh
            side_len = H if side in ("left", "right") else 0.6 * W
            frac = max(frac, min(0.92, 1.6 * mel / side_len))
            off = _r(rng, -0.08, 0.08) * (1 - frac)
            thick = 0.04 * xi_
            if side in ("left", "right"):
                cx = (-W / 2 if side == "left" else W / 2)
                t = {"kind": "box", "w": thick, "h": frac * H, "center": [cx, off * H], "points": 8}
            else:
                cy = (H / 2 if side == "top" else -H / 2)
                t = {"kind": "box", "w": frac * W * 0.6, "h": thick, "center": [off * W, cy], "points": 8}
            if ang:
                # rotate terminal about origin like geometry.box(angle=) does
                t["angle"] = ang
            t["name"] = names[k]
            spec["terminals"].append(t)
    if probes:
        if film_kind == "L":
            pts = [[-0.38 * W, -0.3 * H], [0.38 * W, -0.32 * H], [-0.33 * W, 0.3 * H]][:probes]
        else:
            # clear of the holes (centred within 0.22 W of the middle, radius <= 0.12 W)
            pts = [[-0.38 * W, 0.02 * H], [0.38 * W, -0.03 * H], [0.02 * W, 0.3 * H]][:probes]
        if ang:
            c, s = math.cos(math.radians(ang)), math.sin(math.radians(ang))
            pts = [[c * x - s * y, s * x + c * y] for x, y in pts]
        spec["probes"] = pts
    spec["mesh"] = {
        "max_edge_length": mel,
        "min_points": None,
        "smooth": int(smooth if smooth is not None else rng.choice([0, 0, 1, 10, 100])),
    }
    return spec


def try_build_device(spec):
    """Build, returning (device, None) or (None, 'refused: ...') when make_mesh itself
    refuses the geometry with its documented ValueError."""
    try:
        return build_device(spec), None
    except ValueError as exc:
        if "Malformed Voronoi" in str(exc):
            return None, "refused: " + str(exc)[:80]
        if "Points cannot contain NaN" in str(exc):
            # a degenerate (zero-area) triangle gives a NaN circumcentre and make_mesh fails inside qhull:
            # a refusal (with an unhelpful message), counted as a class
            return None, "refused: degenerate triangle (NaN circumcentre)"
        if "Error on input data" in str(exc):
            # scipy's splprep refuses this outline in Polygon.resample (harness-side shape construction)
            return None, "refused: resample failed"
        raise
