"""C02 Each step solves the discretised TDGL equation on the physical branch.

L1: the documented public static method TDGLSolver.solve_for_psi_squared is called on
generated per-site inputs covering the whole input space (exact zeros, tiny and large
|psi|, gamma = 0, ten decades of dt, random complex sparse and real mesh Laplacians);
every return value is judged by the long-double oracle in vt/ref/step.py.
L2: the same oracle on every call made during full simulations (retries included)."""
import numpy as np
import scipy.sparse as sp

from .. import meshzoo, simmon, zoo
from . import _simcases as S

RULE = (
    "L1 case = 1500-3000 batches of 1..40 sites: |psi| classes {0, 1e-300..1e-8, ~1, 1..3}, uniform phases, mu over four "
    "decades, epsilon in [-1,1], gamma in {0, 0.01..100}, u in {0.1..100}, dt log-uniform 1e-8..1e2, Laplacian action through "
    "random complex sparse matrices or a real mesh Laplacian with random link variables. L2 case = one simulation with the "
    "oracle on every solve_for_psi_squared call. non-trivial = case with >= 1 answered and >= 1 refused call judged (L1) or "
    ">= 50 calls judged (L2); distinct = distinct spec"
)
REQUIRED_COUNTERS = ["spsq_calls_checked", "spsq_answers", "spsq_refusals", "branch_checks", "reported_step_checks", "retried_steps_checked"]
CASE_TIMEOUT = {"quick": 900, "thorough": 3000}
ASSUMPTIONS = ["numpy long double (80-bit) arithmetic as reference; decision band of 1e-9 of the discriminant's terms accepts either outcome",
               "inputs that overflow/invalid in double precision are outside the property and skipped (counted)"]


def gen_cases(tier, seed):
    rng = np.random.default_rng(2_000 + seed)
    nL1 = 16 if tier == "quick" else 160
    nb = 1500 if tier == "quick" else 6000
    cases = [{"layer": "L1", "batches": nb, "lap": ["random", "mesh"][k % 2], "seed": int(rng.integers(1 << 30)), "cost": 10} for k in range(nL1)]
    nL2 = 6 if tier == "quick" else 50
    for k in range(nL2):
        nt = int(rng.choice([0, 2]))
        scr = (k % 6 == 5)
        dev = zoo.gen_device(rng, n_terminals=nt, n_holes=int(rng.choice([0, 1])) if not nt else 0, probes=0, size="tiny" if scr else "small")
        o = S.base_options(rng, adaptive=True, steps=60 if scr else 120, screening=scr)
        if k % 3 == 0:
            # proposals far above what the scheme accepts: forces refused attempts followed by successful retries
            o.update(dt_init=0.05, dt_max=float(rng.choice([0.5, 2.0])), max_solve_retries=25, adaptive_window=int(rng.choice([1, 3])), solve_time=12.0)
        drive = {"A": S.field_spec(rng, dev, o, ["ramp", "uniform", "osc", "zero", "piecewise", "uniform"][k % 6], b=float(rng.choice([0.2, 0.6]))),
                 "currents": S.current_spec(rng, dev, o, "const" if nt else "none"),
                 "epsilon": {"kind": str(rng.choice(["one", "spatial", "time", "const"])), "value": -0.5}}
        # "fresh": w^n is built with the covariant Laplacian of the vector potential in force AT THIS STEP (the operator handed to the
        # step is compared with the potential the harness evaluates itself at the step's time)
        cases.append({"layer": "L2", "device": dev, "options": o, "drive": drive, "monitors": ["step", "fresh"], "cost": 30 if scr else 8, "solve_twice": bool(k % 2)})
    for k in range(2 if tier == "quick" else 6):
        # gamma = 0 (no inelastic scattering) is an ordinary value of the layer
        dev = zoo.gen_device(rng, n_terminals=int([0, 2][k % 2]), n_holes=0, probes=0, size="small", gamma=0.0)
        o = S.base_options(rng, adaptive=True, steps=80)
        drive = {"A": S.field_spec(rng, dev, o, "uniform", b=0.3), "currents": S.current_spec(rng, dev, o, "const", strength=0.2), "epsilon": {"kind": "one"}}
        cases.append({"layer": "L2", "device": dev, "options": o, "drive": drive, "monitors": ["step"], "cost": 8})
    for k in range(2 if tier == "quick" else 6):
        # terminals left free (terminal_psi=None), a uniform vector potential and an oversized first step: the update is unsolvable
        # at some sites - wherever they are, the step is refused and retried
        dev = zoo.gen_device(rng, n_terminals=2, n_holes=0, probes=0, size="small", gamma=float([10.0, 1.0][k % 2]))
        o = S.base_options(rng, adaptive=True, steps=60)
        o.update(terminal_psi="none", dt_init=float([0.2, 0.4][k % 2]), dt_max=0.5, adaptive_time_step_multiplier=0.25, max_solve_retries=25, adaptive_window=3, solve_time=3.0)
        drive = {"A": {"kind": "shifted", "B": 0.0, "c": [float([0.6, 1.5][k % 2]) * S._scales(dev, o).Bc2 / S._scales(dev, o).fu * dev["layer"]["xi"], 0.0]},
                 "currents": {"kind": "none"}, "epsilon": {"kind": "one"}}
        cases.append({"layer": "L2", "device": dev, "options": o, "drive": drive, "monitors": ["step"], "cost": 8})
    for k in range(2 if tier == "quick" else 8):
        # screening (several Polyak iterations per step) on a biased device: mu changes from step to step, every iteration starts from (psi^n, mu^n)
        dev = zoo.gen_device(rng, n_terminals=2, n_holes=0, probes=0, size="tiny")
        dev["layer"]["lam"], dev["layer"]["d"] = 2.0, 0.1
        o = S.base_options(rng, adaptive=True, steps=40, screening=True)
        o.update(screening_tolerance=1e-4, max_iterations_per_step=3000)
        if k % 2:
            o.update(dt_init=0.05, dt_max=0.5, max_solve_retries=25, adaptive_window=2, solve_time=4.0)  # retried steps as well
        drive = {"A": S.field_spec(rng, dev, o, "uniform", b=0.25), "currents": S.current_spec(rng, dev, o, ["const", "callable"][k % 2], strength=0.3), "epsilon": {"kind": "one"}}
        cases.append({"layer": "L2", "device": dev, "options": o, "drive": drive, "monitors": ["step"], "cost": 30})
    for k in range(2 if tier == "quick" else 6):
        # continuation from a seed whose terminal sites hold values the new run does not pin them to: psi^0 of the new run is the
        # seed's state, and the first step is built from exactly that state
        dev = zoo.gen_device(rng, n_terminals=2, n_holes=0, probes=0, size="small", gamma=float([10.0, 1.0][k % 2]))
        o = S.base_options(rng, adaptive=True, steps=40)
        o["terminal_psi"] = [0.0, 0.5][k % 2]
        drive = {"A": S.field_spec(rng, dev, o, "uniform", b=0.3), "currents": S.current_spec(rng, dev, o, "const", strength=0.2), "epsilon": {"kind": "one"}}
        cases.append({"layer": "L2", "device": dev, "options": o, "drive": drive, "monitors": ["step"], "seed_terminal_psi": ["none", 1.0][k % 2], "cost": 10})
    for k in range(2 if tier == "quick" else 6):
        # the retry budget is exactly what the worst step needs: the solution found on the last permitted retry is not thrown away
        dev = zoo.gen_device(rng, n_terminals=0, n_holes=0, probes=0, size="small", gamma=float([10.0, 1.0][k % 2]))
        o = dict(adaptive=True, adaptive_window=int([1, 3][k % 2]), adaptive_time_step_multiplier=float([0.5, 0.25, 0.7][k % 3]), max_solve_retries=60,
                 dt_init=0.1, dt_max=2.0, solve_time=8.0, save_every=10, field_units="mT", current_units="uA", output="file")
        drive = {"A": S.field_spec(rng, dev, o, "uniform", b=0.6), "currents": {"kind": "none"}, "epsilon": {"kind": "one"}}
        cases.append({"layer": "L2", "device": dev, "options": o, "drive": drive, "monitors": ["step"], "exact_budget": True, "cost": 12})
    return cases


def _psi(rng, n):
    cls = rng.integers(0, 6, n)
    mag = np.empty(n)
    mag[cls == 0] = 0.0
    k = cls == 1
    mag[k] = 10.0 ** rng.uniform(-300, -8, k.sum())
    k = cls == 2
    mag[k] = rng.uniform(0.5, 1.05, k.sum())
    k = cls == 3
    mag[k] = rng.uniform(1.0, 3.0, k.sum())
    k = cls == 4
    mag[k] = 10.0 ** rng.uniform(-8, -1, k.sum())
    k = cls == 5
    mag[k] = 1.0
    ph = rng.uniform(0, 2 * np.pi, n)
    return mag * np.exp(1j * ph)


def run_case(spec):
    if spec["layer"] == "L2":
        kw = {}
        if spec.get("exact_budget"):
            device, why = zoo.try_build_device(spec["device"])
            if device is None:
                return {"violations": [], "counters": {"refused_mesh": 1}, "classes": ["refused"], "nontrivial": False}
            R, dts = S.probe_retry_depth(spec, device)
            if not R:
                return {"violations": [], "counters": {"exact_budget_premise_not_met": 1}, "classes": ["L2", "exact_budget", "premise_not_met"], "nontrivial": False}
            spec = dict(spec, options=dict(spec["options"], max_solve_retries=R - 1))
            kw = dict(device=device)
        if "seed_terminal_psi" in spec:
            from .. import sim

            device, why = zoo.try_build_device(spec["device"])
            if device is None:
                return {"violations": [], "counters": {"refused_mesh": 1}, "classes": ["refused"], "nontrivial": False}
            r0 = sim.run_sim(dict(spec, options=dict(spec["options"], terminal_psi=spec["seed_terminal_psi"])), [], device=device, keep_dir=True)
            if r0.refused or r0.exception is not None or r0.solution is None:
                return {"violations": [], "counters": {"refused_mesh": 1}, "classes": ["refused"], "nontrivial": False}
            kw = dict(device=device, seed_solution=r0.solution)
        out = S.run_sim_case(spec, "C02", **kw)
        if "seed_terminal_psi" in spec and "counters" in out:
            out["counters"]["seeded_runs"] = 1
        if spec.get("exact_budget") and "counters" in out:
            out["counters"]["exact_budget_runs"] = 1
            if out["sample"].get("exception"):
                out["violations"].append({"kind": "update_refused_although_solved", "mechanism": "update_refused_although_solution_found",
                                          "detail": {"worst_step_needs_refusals": R, "max_solve_retries": R - 1, "exception": out["sample"]["exception"]}})
        out["classes"] = ["L2"] + S.classes_of(spec)
        out["nontrivial"] = out["counters"].get("spsq_calls_checked", 0) >= 50
        return out
    from tdgl import TDGLSolver

    rng = np.random.default_rng(spec["seed"])
    mon = simmon.Base()
    meshL = None
    if spec["lap"] == "mesh":
        mspec = meshzoo.gen_mesh_specs(rng, 1, max_sites=200, include_explicit=False)[0]
        mesh, _ = meshzoo.build_mesh(mspec)
        if mesh is not None:
            from tdgl.finite_volume.operators import build_laplacian

            meshL = (mesh, build_laplacian)
    classes = set()
    for b in range(spec["batches"]):
        if meshL is not None and b % 3 == 0:
            mesh, build_laplacian = meshL
            n = len(mesh.sites)
            A = rng.normal(size=(len(mesh.edge_mesh.edges), 2)) * 10.0 ** rng.uniform(-2, 1)
            L, _ = build_laplacian(mesh, link_exponents=A)
        else:
            n = int(rng.integers(1, 41))
            dens = min(1.0, 4.0 / n)
            R = sp.random(n, n, density=dens, random_state=np.random.RandomState(int(rng.integers(1 << 30))), format="csr")
            I = sp.random(n, n, density=dens, random_state=np.random.RandomState(int(rng.integers(1 << 30))), format="csr")
            L = (R + 1j * I) * 10.0 ** rng.uniform(-3, 2) - sp.identity(n) * 10.0 ** rng.uniform(-2, 2)
            if rng.random() < 0.15:
                L = L * 0
        psi = _psi(rng, n)
        if rng.random() < 0.1:
            psi[:] = 1.0
        mu = rng.normal(size=n) * 10.0 ** rng.uniform(-2, 2)
        if rng.random() < 0.2:
            mu[:] = 0
        eps = rng.uniform(-1, 1, n)
        if rng.random() < 0.3:
            eps[:] = 1.0
        gamma = float(rng.choice([0.0, 0.0, 10.0 ** rng.uniform(-2, 2), 10.0, 1.0]))
        u = float(10.0 ** rng.uniform(-1, 2))
        dt = float(10.0 ** rng.uniform(-8, 2))
        kw = dict(psi=psi, abs_sq_psi=np.abs(psi) ** 2, mu=mu, epsilon=eps, gamma=gamma, u=u, dt=dt, psi_laplacian=L)
        keep = {k: (v.copy() if isinstance(v, np.ndarray) else v) for k, v in kw.items()}
        res = TDGLSolver.solve_for_psi_squared(**kw)
        for k in ("psi", "abs_sq_psi", "mu", "epsilon"):
            if not np.array_equal(kw[k], keep[k]):
                mon.viol("input_mutated", "input_mutated", {"arg": k})
        simmon.check_spsq(mon, kw, res, where={"batch": b, "n": n, "gamma": gamma, "u": u, "dt": dt})
        classes.add("gamma=0" if gamma == 0 else "gamma>0")
        classes.add("dt<1e-4" if dt < 1e-4 else ("dt<1" if dt < 1 else "dt>=1"))
        if np.any(psi == 0):
            classes.add("exact_zero_psi")
        if np.any((np.abs(psi) > 0) & (np.abs(psi) < 1e-100)):
            classes.add("tiny_psi<1e-100")
        if np.any(np.abs(psi) > 1):
            classes.add("|psi|>1")
    C = mon.C
    return {"violations": mon.V, "counters": C, "worst": mon.W, "classes": ["L1/" + spec["lap"]] + sorted(classes),
            "nontrivial": C.get("spsq_answers", 0) > 0 and C.get("spsq_refusals", 0) > 0,
            "sample": {"batches": spec["batches"], "answers": C.get("spsq_answers", 0), "refusals": C.get("spsq_refusals", 0),
                       "overflow_skipped": C.get("spsq_overflow_skipped", 0), "worst_over_gate": mon.W}}
