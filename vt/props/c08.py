"""C08 Results do not depend on the unit system used to state the problem.

Differential monitor: the same physical problem is stated in two unit systems (length
um/nm/mm, field mT/uT/T, current uA/nA/mA) on the same dimensionless mesh
(device_b.mesh = device_a.mesh; Triangle's meshing is scale-sensitive, which is meshing,
not units) and run twice; every update return is compared in dimensionless form (modulo
the mu constant / global phase), dt sequences must coincide, and the physical outputs
(Solution.current_density converted to uA/um, vector_potential_at_position in T*m) must
agree. Absolute identity (L1): for ConstantField(B) in any units the phase accumulated
around every mesh triangle, sum A_scale*A(r_mid).e, equals 2 pi B area / Phi_0 (CODATA)."""
import copy

import numpy as np

from .. import sim, simmon, zoo
from ..ref import units
from . import _simcases as S

RULE = (
    "L2 case = one physical problem (device incl. terminals/holes, uniform / ramped / loop field, constant or time-dependent "
    "currents, screening on/off) stated in two different unit systems; L1 case = one mesh x unit system x field value for the "
    "flux-quantum identity on every triangle. non-trivial = >= 20 update returns compared and physical outputs compared (L2) / "
    "all triangles checked (L1); distinct = distinct spec"
)
REQUIRED_COUNTERS = ["unit_pairs", "steps_compared", "physical_output_checks", "triangle_flux_checks", "scale_identity_checks"]
CASE_TIMEOUT = {"quick": 900, "thorough": 2400}
ASSUMPTIONS = ["CODATA 2018 constants (Phi_0 exact); gate 1e-7 relative admits the different mu0 editions of pint/scipy",
               "the two devices share the dimensionless mesh object"]

LSC = {"um": 1.0, "nm": 1e3, "mm": 1e-3}  # factor on numbers when going from um to the unit
FSC = {"mT": 1.0, "uT": 1e3, "T": 1e-3}
CSC = {"uA": 1.0, "nA": 1e3, "mA": 1e-3}


def gen_cases(tier, seed):
    rng = np.random.default_rng(8_000 + seed)
    cases = []
    npairs = 4 if tier == "quick" else 40
    systems = [("um", "mT", "uA"), ("nm", "uT", "nA"), ("mm", "T", "mA"), ("nm", "T", "uA"), ("mm", "uT", "nA"), ("um", "uT", "mA")]
    for k in range(npairs):
        scr = (k % 4 == 3)
        nt = int([2, 0, 3, 0][k % 4])
        dev = zoo.gen_device(rng, n_terminals=nt, n_holes=int(nt == 0), probes=2 if nt else 0, size="tiny" if scr else "small", smooth=0)
        if scr:
            dev["layer"]["lam"], dev["layer"]["d"] = 2.0, 0.1
        if k % 2 == 1 or k % 4 == 2:
            dev["layer"]["z0"] = -0.3 * dev["film"].get("w", 4.0)  # film away from the plane z = 0 (a length like any other)
        o = S.base_options(rng, adaptive=bool(k % 2), steps=30 if scr else 100, screening=scr)
        o["dt_max"] = 0.02
        o["dt_init"] = min(o["dt_init"], 5e-3)
        if not o["adaptive"]:
            o.update(dt_init=4e-3, solve_time=0.4 if not scr else 0.1)
        else:
            o["solve_time"] = 1.0 if not scr else 0.3
        if scr:
            # tight tolerance, so that what remains of the iteration does not dominate the difference between the two statements
            o["max_iterations_per_step"] = 5000
            o["screening_tolerance"] = 1e-6
        Ak = ["uniform", "ramp", "loop", "ramp" if (k // 4) % 2 == 0 else "uniform_float"][k % 4]  # (k%4==3: screening, also with a time-dependent field)
        drive = {"A": S.field_spec(rng, dev, o, Ak, b=0.25), "currents": S.current_spec(rng, dev, o, ["const", "callable"][k % 2] if nt else "none", strength=0.15)}
        if k % 4 in (1, 3):
            drive["epsilon"] = {"kind": "time"}  # position- and time-dependent epsilon (evaluated at physical coordinates)
        ua, ub = systems[0], systems[1 + k % (len(systems) - 1)]
        if k % 3 == 2:
            ua = systems[int(rng.integers(1, len(systems)))]
        if Ak == "loop":
            # the loop's current is stated in the run's current units: one statement in uA, the other not
            ua, ub = systems[0], [("nm", "uT", "nA"), ("mm", "T", "mA"), ("um", "uT", "mA")][(k // 4) % 3]
        elif nt and (k // 4) % 2 == 0:
            ub = [("mm", "T", "uA"), ("mm", "uT", "nA")][(k // 2) % 2]  # terminals stated in mm, currents with ANOTHER prefix than lengths
        case = {"layer": "L2", "device": dev, "options": o, "drive": drive, "units_a": list(ua), "units_b": list(ub), "cost": 60 if scr else 15}
        if (k % 4 == 2 and (k // 4) % 2 == 0) or (k % 4 == 1 and (k // 4) % 2 == 1):
            # both statements of the problem are moved in place (same physical displacement) after meshing, before the run
            W = dev["film"].get("w", 4.0)
            case["pre_move"] = [float(rng.uniform(0.2, 0.6) * W), float(-rng.uniform(0.1, 0.4) * W)]
        if k % 2 == 0:
            # ONE SolverOptions object for both statements: solved in the first unit system, then its unit fields (and the numbers
            # that depend on them) are changed and the problem is solved again; the FIRST solution keeps answering in its own units
            case["shared_options"] = True
        cases.append(case)
    nl1 = 6 if tier == "quick" else 40
    for k in range(nl1):
        dev = zoo.gen_device(rng, n_terminals=0, n_holes=int(k % 2), probes=0, size="small", xi=float(rng.choice([0.1, 0.5, 2.0])))
        cases.append({"layer": "L1", "device": dev, "units": list(systems[k % len(systems)]), "b": float(rng.choice([0.01, 0.3, 2.0])), "cost": 3})
    return cases


def restate(dev_spec, o, drive, lu, fu, cu):
    """The same physical problem (given in um / mT / uA) in other units."""
    d = zoo.scale_device_spec(dev_spec, LSC[lu], lu) if lu != "um" else copy.deepcopy(dev_spec)
    o2 = dict(o)
    o2["field_units"], o2["current_units"] = fu, cu
    dr = copy.deepcopy(drive)
    A = dr.get("A", {})
    if "B" in A:
        A["B"] = A["B"] * FSC[fu]
    if A.get("kind", "").startswith("loop"):
        A["current"] = A["current"] * CSC[cu]
        A["radius"] = A["radius"] * LSC[lu]
        A["center"] = [x * LSC[lu] for x in A["center"]]
    if dr.get("epsilon", {}).get("kind") in ("spatial", "spatial_novec", "time"):
        dr["epsilon"]["L"] = LSC[lu]
    c = dr.get("currents", {})
    if "values" in c:
        c["values"] = {k: v * CSC[cu] for k, v in c["values"].items()}
    return d, o2, dr


class _Keep(simmon.Base):
    def __init__(self):
        super().__init__()
        self.ups = []

    def on_update_end(self, ctx, res, exc):
        if res is not None:
            self.ups.append(dict(dt=float(res.dt), psi=np.array(res.psi), mu=np.array(res.mu), js=np.array(res.supercurrent), jn=np.array(res.normal_current),
                                 Ai=np.array(res.A_induced), iters=ctx["screen_iters"]))


def _l2(spec):
    # the specs are authored in um/mT/uA
    from .. import stability

    runs = []
    mesh = None
    spec = copy.deepcopy(spec)
    for (lu, fu, cu) in (spec["units_a"], spec["units_b"]):
        d, o, dr = restate(spec["device"], spec["options"], spec["drive"], lu, fu, cu)
        if mesh is None:
            dev, why = zoo.try_build_device(d)
            if dev is None:
                return {"violations": [], "counters": {"refused_mesh": 1}, "classes": ["refused"], "nontrivial": False}
            mesh = dev.mesh
            # stay inside the explicit scheme's stability bound (differences are otherwise amplified: C17)
            T_old = spec["options"]["solve_time"]
            spec["options"] = stability.clamp(spec["options"], stability.dt_star(dev), 40 if spec["options"].get("include_screening") else 120)
            f = spec["options"]["solve_time"] / T_old
            A = spec["drive"].get("A", {})
            for key in ("tmin", "tmax"):
                if key in A:
                    A[key] *= f
            if "w" in spec["drive"].get("currents", {}):
                spec["drive"]["currents"]["w"] /= f
            d, o, dr = restate(spec["device"], spec["options"], spec["drive"], lu, fu, cu)
        else:
            dev = zoo.build_device(d, mesh=False)
            dev.mesh = mesh
        if spec.get("pre_move"):
            had_terminals = [len(t.site_indices) for t in dev.terminal_info()]  # raises here if the zoo's terminal misses the boundary
            dev.translate(spec["pre_move"][0] * LSC[lu], spec["pre_move"][1] * LSC[lu], inplace=True)
        keep = _Keep()
        opt_obj = None
        if spec.get("shared_options") and runs:
            # the caller edits the options object of the first run and uses it again
            import dataclasses

            opt_obj = runs[0][1].options
            sp_ = sim.resolve_auto_dt({"device": d, "options": dict(o), "drive": {}}, dev)
            fresh_ = sim.build_options(sp_["options"], output_file=None)
            for f_ in dataclasses.fields(fresh_):
                setattr(opt_obj, f_.name, getattr(fresh_, f_.name))
        rr = sim.run_sim({"device": d, "options": o, "drive": dr}, [keep], device=dev, keep_dir=True, options_obj=opt_obj)
        if spec.get("shared_options") and not runs and rr.solution is not None and rr.exception is None:
            # what the first solution says about itself before the options object is touched again
            s0_ = rr.solution
            ext0_ = float(np.ptp(s0_.device.points[:, 0]))
            P0_ = np.array([[0.1 * ext0_, -0.2 * ext0_, 0.4 * ext0_], [-0.3 * ext0_, 0.25 * ext0_, 0.9 * ext0_]])
            first_view = {"field_units": str(s0_.field_units), "current_units": str(s0_.current_units), "P": P0_,
                          "A_own_units": np.array(s0_.vector_potential_at_position(P0_, with_units=False), copy=True),
                          "A_SI": np.array(s0_.vector_potential_at_position(P0_, units="T * m", with_units=False), copy=True),
                          "B_own_units": np.array(s0_.field_at_position(P0_, with_units=False), copy=True),
                          "K_own_units": np.array(s0_.current_density.magnitude, copy=True), "K_units": str(s0_.current_density.units)}
        if rr.refused and spec.get("pre_move") and "covers no boundary edge" in str(rr.refused):
            # the terminals found their boundary sites before the rigid move and do not find them afterwards
            return {"violations": [{"kind": "moved_device_loses_its_terminals", "mechanism": "mesh_and_polygons_moved_differently",
                                    "detail": {"units": [lu, fu, cu], "terminal_sites_before_move": had_terminals, "move": spec["pre_move"]}}],
                    "counters": {"unit_pairs": 1}, "classes": ["L2", "pre_move"], "nontrivial": True}
        if rr.refused:
            return {"violations": [], "counters": {"refused_mesh": 1}, "classes": ["refused"], "nontrivial": False}
        if rr.exception is not None:
            import shutil

            shutil.rmtree(rr.outdir, ignore_errors=True)
            if not runs and isinstance(rr.exception, RuntimeError) and "converge" in str(rr.exception):
                return {"violations": [], "counters": {"runs_ending_in_nonconvergence": 1}, "classes": ["nonconvergence"], "nontrivial": False}
            if runs:
                return {"violations": [{"kind": "restated_problem_fails", "mechanism": "units_change_outcome", "detail": {"units": [spec["units_a"], spec["units_b"]], "raised": repr(rr.exception)[:200]}}],
                        "counters": {"unit_pairs": 1}, "classes": ["L2"], "nontrivial": True}
            return {"status": "harness_error", "error": repr(rr.exception)[:300]}
        runs.append((keep.ups, rr, (lu, fu, cu)))
    (a, rra, ua), (b, rrb, ub) = runs
    V, C, W = [], {"unit_pairs": 1, "steps_compared": 0, "physical_output_checks": 0}, {}
    if spec.get("shared_options") and rra.solution is not None:
        # the first solution after the caller has re-used (and edited) its options object for another unit system
        C["first_solution_after_options_reuse_checks"] = 1
        s0_ = rra.solution
        fv = first_view
        now = {"field_units": str(s0_.field_units), "current_units": str(s0_.current_units),
               "A_own_units": np.asarray(s0_.vector_potential_at_position(fv["P"], with_units=False)),
               "A_SI": np.asarray(s0_.vector_potential_at_position(fv["P"], units="T * m", with_units=False)),
               "B_own_units": np.asarray(s0_.field_at_position(fv["P"], with_units=False)),
               "K_own_units": np.asarray(s0_.current_density.magnitude), "K_units": str(s0_.current_density.units)}
        changed = [k_ for k_ in now if (now[k_] != fv[k_] if isinstance(now[k_], str) else not np.array_equal(now[k_], fv[k_]))]
        if changed:
            det = {"changed": changed, "units_first_run": list(ua), "units_second_run": list(ub), "field_units_now": now["field_units"], "current_units_now": now["current_units"]}
            if "A_SI" in changed:
                det["A_SI_ratio"] = float(np.max(np.abs(now["A_SI"])) / (np.max(np.abs(fv["A_SI"])) + 1e-300))
            V.append({"kind": "finished_solution_follows_later_edits_of_the_options", "mechanism": "physical_output_depends_on_units", "detail": det})
    gate = 1e-7
    if spec["options"].get("include_screening"):
        gate = max(gate, 10 * spec["options"]["screening_tolerance"])
    if len(a) != len(b):
        V.append({"kind": "run_lengths_differ", "mechanism": "units_change_run", "detail": {"steps": [len(a), len(b)], "units": [ua, ub]}})
    for i, (x, y) in enumerate(zip(a, b)):
        C["steps_compared"] += 1
        if abs(x["dt"] - y["dt"]) > 1e-9 * x["dt"]:
            V.append({"kind": "dt_sequences_differ", "mechanism": "units_change_run", "detail": {"step": i, "dt": [x["dt"], y["dt"]], "units": [ua, ub]}})
            break
        errs = {}
        ov = np.vdot(x["psi"], y["psi"])
        ph = ov / abs(ov) if abs(ov) > 0 else 1.0
        errs["psi"] = float(np.max(np.abs(x["psi"] - y["psi"] * np.conj(ph))))
        sj = max(float(np.max(np.abs(x["js"]))) + float(np.max(np.abs(x["jn"]))), 1e-3)
        errs["supercurrent"] = float(np.max(np.abs(x["js"] - y["js"]))) / sj
        errs["normal_current"] = float(np.max(np.abs(x["jn"] - y["jn"]))) / sj
        mx, my = x["mu"] - x["mu"].mean(), y["mu"] - y["mu"].mean()
        errs["mu"] = float(np.max(np.abs(mx - my))) / max(float(np.max(np.abs(mx))), 1e-3)
        if np.any(x["Ai"]) or np.any(y["Ai"]):
            errs["A_induced"] = float(np.max(np.abs(x["Ai"] - y["Ai"]))) / max(float(np.max(np.abs(x["Ai"]))), 1e-9)
        for k_, v_ in errs.items():
            W[k_] = max(W.get(k_, 0.0), v_ / gate)
        bad = {k_: v_ for k_, v_ in errs.items() if v_ > gate}
        if bad:
            V.append({"kind": "dimensionless_solution_depends_on_units", "mechanism": "dimensionless_solution_depends_on_units",
                      "detail": {"step": i, "errors": bad, "units": [ua, ub], "screening_iterations": [x["iters"], y["iters"]]}})
            break
    # physical outputs of the loaded solutions
    sa, sb = rra.solution, rrb.solution
    if sa is not None and sb is not None and not V and sa.saved_on_disk and sb.saved_on_disk:
        import tdgl

        la, lb = tdgl.Solution.from_hdf5(sa.path), tdgl.Solution.from_hdf5(sb.path)
        C["physical_output_checks"] += 1
        Kl = [np.asarray(x.current_density.to("uA / um").magnitude) for x in (sa, la, lb)]
        sc0 = max(float(np.max(np.abs(Kl[0]))), 1e-12)
        for nm, Kx in (("reloaded_a", Kl[1]), ("reloaded_b", Kl[2])):
            r = float(np.max(np.abs(Kx - Kl[0]))) / sc0
            if r > gate:
                V.append({"kind": "physical_current_density_changes_on_reload", "mechanism": "physical_output_depends_on_units", "detail": {"which": nm, "rel": r, "units": [ua, ub]}})
        for nm, x, uu in (("reloaded_a", la, ua), ("reloaded_b", lb, ub)):
            if x.device.length_units != uu[0] or x.field_units != uu[1] or x.current_units != uu[2]:
                V.append({"kind": "units_lost_on_reload", "mechanism": "units_lost_on_reload", "detail": {"which": nm, "expected": uu, "got": [x.device.length_units, x.field_units, x.current_units]}})
    if sa is not None and sb is not None and not V:
        Ka = np.asarray(sa.current_density.to("uA / um").magnitude)
        Kb = np.asarray(sb.current_density.to("uA / um").magnitude)
        C["physical_output_checks"] += 1
        sc = max(float(np.max(np.abs(Ka))), 1e-12)
        r = float(np.max(np.abs(Ka - Kb))) / sc
        W["current_density"] = r / gate
        if r > gate:
            V.append({"kind": "physical_current_density_depends_on_units", "mechanism": "physical_output_depends_on_units", "detail": {"rel": r, "units": [ua, ub]}})
        # absolute scale of the physical current density: K = (K0/4) * site average of edge currents
        scl = units.Scales(spec["device"]["layer"]["xi"], spec["device"]["layer"]["lam"], spec["device"]["layer"]["d"], "um", "mT", "uA")
        g = simmon.MeshGeo(rra.device.mesh)
        Kref = g.site_current(a[-1]["js"] + a[-1]["jn"]) * scl.K0 * 1e-0  # A/m == uA/um
        r = float(np.max(np.abs(Ka - Kref))) / max(float(np.max(np.abs(Kref))), 1e-12)
        C["physical_output_checks"] += 1
        W["current_density_absolute"] = r / 1e-7
        if r > 1e-7:
            V.append({"kind": "physical_current_density_scale_wrong", "mechanism": "physical_output_scale_wrong", "detail": {"rel": r, "units": ua}})
        # vector potential at fixed physical positions (in um) in fixed units
        ext = float(np.ptp(sa.device.points[:, 0])) / LSC[ua[0]]
        rng = np.random.default_rng(0)
        P_um = np.stack([rng.uniform(-ext, ext, 9), rng.uniform(-ext, ext, 9), rng.uniform(0.2, 1.0, 9) * ext], axis=1)
        Aa = np.asarray(sa.vector_potential_at_position(P_um * LSC[ua[0]], units="T * m", with_units=False))
        Ab = np.asarray(sb.vector_potential_at_position(P_um * LSC[ub[0]], units="T * m", with_units=False))
        C["physical_output_checks"] += 1
        r = float(np.max(np.abs(Aa - Ab))) / max(float(np.max(np.abs(Aa))), 1e-300)
        W["vector_potential_at_position"] = r / gate
        if r > gate:
            V.append({"kind": "physical_vector_potential_depends_on_units", "mechanism": "physical_output_depends_on_units", "detail": {"rel": r, "units": [ua, ub]}})
        # interpolated current density at fixed physical points: asked in the solution's own units first, then in A / m
        # (the answer to the second question does not depend on the first having been asked)
        pts_a = np.asarray(sa.device.points) / LSC[ua[0]]
        Q_um = pts_a[:: max(1, len(pts_a) // 7)][:7] * 0.999
        C["physical_output_checks"] += 1
        try:
            ja0 = np.asarray(sa.interp_current_density(Q_um * LSC[ua[0]], with_units=False))
            jb0 = np.asarray(sb.interp_current_density(Q_um * LSC[ub[0]], with_units=False))
            ja = np.asarray(sa.interp_current_density(Q_um * LSC[ua[0]], units="A / m", with_units=False))
            jb = np.asarray(sb.interp_current_density(Q_um * LSC[ub[0]], units="A / m", with_units=False))
            rj = float(np.nanmax(np.abs(ja - jb))) / max(float(np.nanmax(np.abs(ja))), 1e-300)
            if rj > gate:
                V.append({"kind": "physical_current_density_depends_on_units", "mechanism": "physical_output_depends_on_units", "detail": {"rel": rj, "units": [ua, ub], "what": "interp_current_density after a default-units call"}})
        except Exception as exc_:  # noqa: BLE001
            C["interp_current_density_raised"] = C.get("interp_current_density_raised", 0) + 1
        # voltage between two user-chosen probe positions (given in the solution's length units), re-extracted from the file
        try:
            from tdgl.solution.data import DynamicsData

            pp_um = np.array([pts_a[np.argmin(pts_a[:, 0])], pts_a[np.argmax(pts_a[:, 0])]]) * 0.9
            da = DynamicsData.from_solution(sa.path, probe_points=pp_um * LSC[ua[0]])
            db = DynamicsData.from_solution(sb.path, probe_points=pp_um * LSC[ub[0]])
            C["physical_output_checks"] += 1
            va, vb = np.asarray(da.mu), np.asarray(db.mu)
            if va.shape != vb.shape or float(np.max(np.abs((va[0] - va[1]) - (vb[0] - vb[1])))) > gate * max(float(np.max(np.abs(va[0] - va[1]))), 1e-6):
                V.append({"kind": "probe_voltage_depends_on_units", "mechanism": "physical_output_depends_on_units", "detail": {"units": [ua, ub], "what": "DynamicsData.from_solution with user-supplied probe points"}})
        except Exception as exc_:  # noqa: BLE001
            C["dynamics_from_solution_raised"] = C.get("dynamics_from_solution_raised", 0) + 1
        Ka0 = np.array(sa.current_density.to("A / m").magnitude, copy=True)
        Kb0 = np.array(sb.current_density.to("A / m").magnitude, copy=True)
        Ba = np.asarray(sa.field_at_position(P_um * LSC[ua[0]], units="T", with_units=False))
        Bb = np.asarray(sb.field_at_position(P_um * LSC[ub[0]], units="T", with_units=False))
        # asking for the field is an observation: the same question again gives the same answer, the currents are what they were
        C["physical_output_checks"] += 1
        for nm_, sx, B1, K0_, uu in (("a", sa, Ba, Ka0, ua), ("b", sb, Bb, Kb0, ub)):
            B2 = np.asarray(sx.field_at_position(P_um * LSC[uu[0]], units="T", with_units=False))
            K1 = np.asarray(sx.current_density.to("A / m").magnitude)
            if not np.array_equal(B1, B2) or not np.array_equal(K0_, K1):
                V.append({"kind": "field_evaluation_changes_the_solution", "mechanism": "physical_output_depends_on_units",
                          "detail": {"units": uu, "field_repeat_rel": float(np.max(np.abs(B2 - B1)) / (np.max(np.abs(B1)) + 1e-300)),
                                     "current_density_rel": float(np.max(np.abs(K1 - K0_)) / (np.max(np.abs(K0_)) + 1e-300))}})
        r = float(np.max(np.abs(Ba - Bb))) / max(float(np.max(np.abs(Ba))), 1e-300)
        C["physical_output_checks"] += 1
        if r > gate:
            V.append({"kind": "physical_field_depends_on_units", "mechanism": "physical_output_depends_on_units", "detail": {"rel": r, "units": [ua, ub]}})
        # the same question on whole-number lateral positions (integer-typed arrays, as np.mgrid / np.arange give them) with a
        # constant height that is a whole number in the finer unit and not in the coarser one (1.5 um = 1500 nm)
        zq = (np.floor(0.4 * ext) + 0.5)
        Gq = np.array([[i_, j_] for i_ in (-1, 0, 1) for j_ in (-1, 1)], dtype=np.int64) * max(1, int(np.floor(0.5 * ext)))
        Bref = None
        for nm_, sx, uu in (("a", sa, ua), ("b", sb, ub)):
            f_ = LSC[uu[0]]
            if f_ < 1:
                continue  # (in mm the positions are not whole numbers)
            C["physical_output_checks"] += 1
            try:
                Bint = np.asarray(sx.field_at_position(Gq * int(f_), zs=float(zq * f_), units="T", with_units=False))
                Bflt = np.asarray(sx.field_at_position(Gq.astype(float) * f_, zs=float(zq * f_), units="T", with_units=False))
            except Exception as exc_:  # noqa: BLE001
                V.append({"kind": "physical_field_depends_on_units", "mechanism": "physical_output_depends_on_units",
                          "detail": {"what": "integer-typed positions with a scalar height", "units": uu, "height_um": float(zq), "raised": repr(exc_)[:200]}})
                continue
            Bref = Bflt if Bref is None else Bref
            for lab_, Bx_ in (("integer-typed vs floating-point positions", Bint), ("across unit systems", Bflt)):
                r = float(np.max(np.abs(Bx_ - Bref))) / max(float(np.max(np.abs(Bref))), 1e-300)
                if r > gate:
                    V.append({"kind": "physical_field_depends_on_units", "mechanism": "physical_output_depends_on_units",
                              "detail": {"what": "whole-number positions, constant height " + str(float(zq)) + " um: " + lab_, "rel": r, "units": uu}})
    import shutil

    for rr in (rra, rrb):
        shutil.rmtree(rr.outdir, ignore_errors=True)
    o = spec["options"]
    return {"violations": V, "counters": C, "worst": W,
            "classes": ["L2", "units=" + "/".join(ua) + "->" + "/".join(ub), "screening=" + str(bool(o.get("include_screening"))), "A=" + spec["drive"]["A"]["kind"],
                        "I=" + spec["drive"]["currents"]["kind"]],
            "nontrivial": C["steps_compared"] >= 20 and C["physical_output_checks"] > 0, "sample": {"steps": len(a), "units": [ua, ub], "worst_over_gate": W}}


def _l1(spec):
    import tdgl
    from tdgl.sources import ConstantField

    lu, fu, cu = spec["units"]
    d, o, _ = restate(spec["device"], {"solve_time": 0.01, "dt_init": 0.005, "adaptive": False, "save_every": 1}, {}, lu, fu, cu)
    dev, why = zoo.try_build_device(d)
    if dev is None:
        return {"violations": [], "counters": {"refused_mesh": 1}, "classes": ["refused"], "nontrivial": False}
    L = spec["device"]["layer"]
    scl = units.Scales(L["xi"] * LSC[lu], L["lam"] * LSC[lu], L["d"] * LSC[lu], lu, fu, cu)
    B_user = spec["b"] * scl.Bc2 / scl.fu
    V, C, W = [], {}, {}
    for form in ("parameter", "float"):
        avp = ConstantField(B_user, field_units=fu, length_units=lu) if form == "parameter" else float(B_user)
        opts = sim.build_options(o)
        solver = tdgl.TDGLSolver(dev, opts, applied_vector_potential=avp)
        # scale identities
        C["scale_identity_checks"] = C.get("scale_identity_checks", 0) + 1
        r = abs(solver.A_scale - scl.A_scale) / scl.A_scale
        W["A_scale"] = max(W.get("A_scale", 0), r / 1e-8)
        if r > 1e-8:
            V.append({"kind": "A_scale_wrong", "mechanism": "A_scale_wrong", "detail": {"got": solver.A_scale, "want": scl.A_scale, "units": spec["units"]}})
        for name, got, want in (("Bc2", dev.Bc2.to("T").magnitude, scl.Bc2), ("A0", dev.A0.to("T*m").magnitude, scl.A0), ("K0", dev.K0.to("A/m").magnitude, scl.K0)):
            r = abs(got - want) / want
            if r > 1e-8:
                V.append({"kind": name + "_wrong", "mechanism": "scale_constant_wrong", "detail": {"got": got, "want": want}})
        # phase around every triangle = 2 pi * flux / Phi_0
        mesh = dev.mesh
        A = np.asarray(solver.current_A_applied)  # dimensionless, on edges
        em = mesh.edge_mesh
        a_edge = np.sum(A * em.directions, axis=1)
        lookup = {(int(i), int(j)): k for k, (i, j) in enumerate(em.edges)}
        xi_si = scl.xi
        sites = mesh.sites
        worst = 0.0
        for tri in mesh.elements:
            tot = 0.0
            for p, q in ((tri[0], tri[1]), (tri[1], tri[2]), (tri[2], tri[0])):
                k = lookup.get((int(p), int(q)))
                if k is not None:
                    tot += a_edge[k]
                else:
                    tot -= a_edge[lookup[(int(q), int(p))]]
            P = sites[tri]
            area = 0.5 * ((P[1, 0] - P[0, 0]) * (P[2, 1] - P[0, 1]) - (P[2, 0] - P[0, 0]) * (P[1, 1] - P[0, 1])) * xi_si**2
            want = 2 * np.pi * (B_user * scl.fu) * area / units.PHI0
            C["triangle_flux_checks"] = C.get("triangle_flux_checks", 0) + 1
            worst = max(worst, abs(tot - want) / (abs(want) + 1e-300))
        W["triangle_flux"] = max(W.get("triangle_flux", 0), worst / 1e-7)
        if worst > 1e-7:
            V.append({"kind": "triangle_phase_ne_flux_quanta", "mechanism": "triangle_phase_ne_flux_quanta", "detail": {"worst_rel": worst, "units": spec["units"], "form": form, "B": B_user}})
    return {"violations": V, "counters": C, "worst": W, "classes": ["L1", "units=" + "/".join(spec["units"])], "nontrivial": C.get("triangle_flux_checks", 0) > 10,
            "sample": {"triangles": C.get("triangle_flux_checks", 0) // 2, "units": spec["units"], "worst_over_gate": W}}


def run_case(spec):
    return _l1(spec) if spec["layer"] == "L1" else _l2(spec)
