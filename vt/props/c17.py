"""C17 The uniform superconducting state is exactly stationary.

Online monitor (vt/simmon.py: StationaryMonitor): no field, no current, epsilon = 1: at
every update return max|psi-1| <= 1e-12 and mu, both currents and the induced potential
are exactly zero; the adaptive step reaches dt_max and stays.

The scheme is explicit: rounding noise is amplified when dt exceeds the mesh's
stability bound dt* = 2u / (sqrt(1+gamma^2) * lambda_max(-L)). The verdict is taken in
the stable regime (dt_max <= 0.9 dt*); runs above the bound are executed as well and a
deviation there is classified by mechanism (known finding) only if every step taken
with dt <= 0.9 dt* up to the first deviation was clean and mu/currents are still
exactly zero - anything else is a violation."""
import numpy as np
import scipy.linalg as sla

from .. import sim, simmon, zoo
from ..ref import fv
from . import _simcases as S

RULE = (
    "case = one undriven run (irregular/smoothed/holed meshes, unbiased terminals left unpinned, gamma in {0,1e-4,1e-3,1e-2,0.1,1,10}, u in "
    "{1,5.79}, adaptive on/off, screening on/off) with dt_max drawn as a fraction (0.2..0.9) of the mesh's explicit stability "
    "bound, or with the default dt_max above the bound; fixed-step runs use dt_init = dt_max/2 (the step must stay); histories: the undriven unpinned run on a "
    "Device that was first solved driven with pinned terminals, and on one SolverOptions object first used with adaptive=False; non-trivial = >= 30 steps checked; distinct = distinct spec"
)
REQUIRED_COUNTERS = ["steps_checked", "stable_regime_runs", "stable_regime_steps"]
CASE_TIMEOUT = {"quick": 600, "thorough": 1500}
ASSUMPTIONS = ["dt* is computed by the harness from a dense eigenvalue of the reference Laplacian assembled from the mesh geometry"]


def gen_cases(tier, seed):
    rng = np.random.default_rng(17_000 + seed)
    n = 10 if tier == "quick" else 80
    cases = []
    for k in range(n):
        scr = (k % 6 == 5)
        nt = int([0, 2, 0, 3][k % 4])
        dev = zoo.gen_device(rng, n_terminals=nt, n_holes=int(k % 3 == 1 and nt == 0), probes=0, size="tiny" if scr else str(rng.choice(["small", "medium"])),
                             film_kind=None if nt == 0 else "box", smooth=int(rng.choice([0, 1, 10, 100])),
                             gamma=float([10.0, 1e-3, 0.0, 1.0, 1e-4, 0.1, 1e-2][k % 7]))
        regime = "stable" if k % 5 != 4 else "above_bound"
        o = dict(adaptive=bool(k % 3 != 2), dt_init=1e-4, save_every=int([20, 1, 7, 3, 20, 11, 64][k % 7]), field_units="mT", current_units="uA", output="file",
                 terminal_psi="none" if nt else 0.0, adaptive_window=int(rng.choice([2, 5, 10])))  # (save intervals below, at and above the window)
        if scr:
            o.update(include_screening=True, screening_tolerance=1e-3, max_iterations_per_step=200)
        cases.append({"device": dev, "options": o, "drive": {}, "regime": regime, "frac": float(rng.uniform(0.2, 0.9)), "steps": 150 if not scr else 40,
                      "cost": 20 if scr else 6})
        if k % 4 == 2 or k % 6 == 5:
            # thermalised: a first stage of 0.317 x the run length (no multiple of the step) that is not recorded; the recorded stage
            # passes the time t = skip_time again
            cases[-1]["therm"] = 0.317
    for k in range(2 if tier == "quick" else 10):
        # terminals PINNED at the uniform value itself (terminal_psi = 1): psi = 1 is still the stationary state
        dev = zoo.gen_device(rng, n_terminals=[2, 3][k % 2], n_holes=0, probes=0, size="small", film_kind="box", smooth=int(rng.choice([0, 10])), gamma=float([1.0, 10.0, 0.0, 1.0][k % 4]), u=5.79)
        o = dict(adaptive=bool(k % 2 == 0), dt_init=1e-6, save_every=20, field_units="mT", current_units="uA", output="file", terminal_psi=1.0, adaptive_window=int(rng.choice([2, 5])))  # (the default dt_init)
        if k % 4 == 2:
            o.update(include_screening=True, screening_tolerance=1e-3, max_iterations_per_step=200)
        cases.append({"device": dev, "options": o, "drive": {}, "regime": "stable", "frac": float(rng.uniform(0.3, 0.9)), "steps": 120, "cost": 8})
    for k in range(2 if tier == "quick" else 6):
        # very small initial step (1e-10 .. 1e-9): in a quiescent state the adaptive step still grows to dt_max
        dev = zoo.gen_device(rng, n_terminals=0, n_holes=int(k % 2), probes=0, size="small", smooth=int(rng.choice([0, 10])), gamma=float([1.0, 0.0][k % 2]), u=5.79)
        o = dict(adaptive=True, dt_init=float([1e-10, 1e-9][k % 2]), save_every=20, field_units="mT", current_units="uA", output="file", terminal_psi=0.0, adaptive_window=int(rng.choice([2, 5])))
        cases.append({"device": dev, "options": o, "drive": {}, "regime": "stable", "frac": 0.9, "steps": 120, "cost": 6})
    nh = 8 if tier == "quick" else 32
    for k in range(nh):
        # histories: the undriven run is not the first thing that happens to the Device / SolverOptions object
        hist = ["after_pinned_run", "options_reused", "seeded_fixed_step", "options_reloaded", "occupied_output", "options_reused", "seeded_fixed_step", "options_reloaded"][k % 8]
        nt = [2, 3][k % 2] if hist in ("after_pinned_run", "options_reloaded") else int([0, 2][(k // 2) % 2])
        dev = zoo.gen_device(rng, n_terminals=nt, n_holes=0, probes=0, size="small", film_kind="box" if nt else None, smooth=int(rng.choice([0, 10])),
                             gamma=float([10.0, 1.0, 0.0][k % 3]))
        o = dict(adaptive=True, dt_init=1e-4, save_every=20, field_units="mT", current_units="uA", output="file",
                 terminal_psi="none" if nt else 0.0, adaptive_window=int(rng.choice([2, 5, 10])))
        cases.append({"device": dev, "options": o, "drive": {}, "regime": "stable", "frac": float(rng.uniform(0.3, 0.9)), "steps": 120, "history": hist,
                      "seed": int(rng.integers(1 << 30)), "cost": 8})
    return cases


def run_case(spec):
    dev, why = zoo.try_build_device(spec["device"])
    if dev is None:
        return {"violations": [], "counters": {"refused_mesh": 1}, "classes": ["refused"], "nontrivial": False}
    g = simmon.MeshGeo(dev.mesh)
    L = fv.laplacian_fast(g.n, g.edges, g.elen, g.s, g.areas, g.dirs, None, None).toarray().real
    s = 1 / np.sqrt(g.areas)
    S_ = (L * g.areas[:, None]) * s[:, None] * s[None, :]
    lam = float(np.max(-sla.eigvalsh((S_ + S_.T) / 2)))
    gamma, u = dev.layer.gamma, dev.layer.u
    dt_star = 2 * u / (np.sqrt(1 + gamma**2) * lam)
    o = dict(spec["options"])
    if spec["regime"] == "stable":
        o["dt_max"] = spec["frac"] * dt_star
    else:
        o["dt_max"] = max(0.1, 3 * dt_star)
    o["dt_init"] = min(o["dt_init"], o["dt_max"] / 4)
    if not o["adaptive"]:
        # a fixed step below the configured maximum: it must stay where it is
        o["dt_init"] = o["dt_max"] * (1.0 if spec.get("history") == "options_reused" else 0.5)
    o["solve_time"] = spec["steps"] * (o["dt_max"] if o["adaptive"] else o["dt_init"]) * (0.7 if o["adaptive"] else 1.0)
    if spec.get("therm"):
        o["skip_time"] = spec["therm"] * o["solve_time"]
    sp = dict(spec)
    sp["options"] = o
    mon = simmon.StationaryMonitor(dt_star)
    run_kwargs = {}
    hist = spec.get("history")
    Vh = []
    if hist == "after_pinned_run" and spec["device"]["terminals"]:
        # the same Device object was first used for a driven run with pinned terminals
        import copy

        from . import _simcases as S2

        pre = copy.deepcopy(sp)
        pre["options"].update(terminal_psi=0.0, adaptive=True, solve_time=20 * o["dt_max"], dt_init=min(1e-3, o["dt_max"] / 4))
        rng = np.random.default_rng(spec.get("seed", 0))
        pre["drive"] = {"A": S2.field_spec(rng, spec["device"], pre["options"], "uniform", b=0.2), "currents": S2.current_spec(rng, spec["device"], pre["options"], "const", strength=0.1)}
        r0 = sim.run_sim(pre, [], device=dev)
        if r0.refused or r0.exception is not None:
            return {"violations": [], "counters": {"refused_mesh": 1}, "classes": ["refused"], "nontrivial": False}
        r0.cleanup()
    elif hist == "seeded_fixed_step":
        # the undriven FIXED-step run is continued from a seed that an adaptive run left behind (its last step was dt_max)
        pre = dict(sp)
        pre["options"] = dict(o, adaptive=True, dt_init=min(1e-4, o["dt_max"] / 4), solve_time=40 * o["dt_max"])
        r0 = sim.run_sim(pre, [], device=dev, keep_dir=True)
        if r0.refused or r0.exception is not None or r0.solution is None:
            return {"violations": [], "counters": {"refused_mesh": 1}, "classes": ["refused"], "nontrivial": False}
        o["adaptive"] = False
        o["dt_init"] = o["dt_max"] * 0.25
        o["solve_time"] = spec["steps"] * o["dt_init"]
        sp["options"] = o
        run_kwargs["seed_solution"] = r0.solution
    elif hist == "options_reloaded":
        # the options (unpinned terminals: terminal_psi=None) come back from the file of an earlier, identical run
        import tdgl

        r0 = sim.run_sim(dict(sp, options=dict(o, solve_time=10 * o["dt_max"])), [], device=dev, keep_dir=True)
        if r0.refused or r0.exception is not None or r0.solution is None:
            return {"violations": [], "counters": {"refused_mesh": 1}, "classes": ["refused"], "nontrivial": False}
        loaded = tdgl.Solution.from_hdf5(r0.solution.path)
        lo = loaded.options
        lo.solve_time = o["solve_time"]
        run_kwargs["options_obj"] = lo
    elif hist == "occupied_output":
        # the output file name is already taken by an earlier, DRIVEN simulation: what solve() hands back is this run
        import copy
        import tempfile

        from . import _simcases as S2

        wd = tempfile.mkdtemp(prefix="vt_c17o_")
        pre = copy.deepcopy(sp)
        pre["options"].update(adaptive=True, solve_time=15 * o["dt_max"], dt_init=min(1e-3, o["dt_max"] / 4), terminal_psi=0.0)
        rng = np.random.default_rng(spec.get("seed", 0))
        pre["drive"] = {"A": S2.field_spec(rng, spec["device"], pre["options"], "uniform", b=0.4)}
        r0 = sim.run_sim(pre, [], device=dev, workdir=wd, keep_dir=True)
        if r0.refused or r0.exception is not None:
            return {"violations": [], "counters": {"refused_mesh": 1}, "classes": ["refused"], "nontrivial": False}
        run_kwargs["workdir"] = wd
    elif hist == "options_reused":
        # ONE SolverOptions object: first a fixed-step run, then the user switches adaptivity on and runs again
        import dataclasses

        oo = dict(o)
        oo["adaptive"] = False
        oo["dt_init"] = min(1e-4, o["dt_max"] / 4)
        oo["solve_time"] = 10 * oo["dt_init"]
        opts = sim.build_options(oo, output_file=None)
        before = dataclasses.asdict(opts)
        r0 = sim.run_sim(dict(sp, options=oo), [], device=dev, options_obj=opts)
        if r0.refused or r0.exception is not None:
            return {"violations": [], "counters": {"refused_mesh": 1}, "classes": ["refused"], "nontrivial": False}
        r0.cleanup()
        after = dataclasses.asdict(opts)
        changed = [k for k in before if k not in ("output_file", "progress_interval", "pause_on_interrupt") and before[k] != after[k]]
        if changed:
            Vh.append({"kind": "solve_changes_callers_options", "mechanism": "solve_changes_callers_options", "detail": {"fields": changed, "before": {k: before[k] for k in changed}, "after": {k: after[k] for k in changed}}})
        opts.adaptive = True
        opts.solve_time = o["solve_time"]
        o["adaptive"] = True
        o["dt_init"] = oo["dt_init"]
        run_kwargs["options_obj"] = opts
    # bounded by operations: with the step growing to dt_max as specified the run needs about 0.7 * steps updates
    sp["max_updates"] = 4 * spec["steps"] + 300
    rr = sim.run_sim(sp, [mon, simmon.Sanitizer()], device=dev, **run_kwargs)
    if rr.refused:
        return {"violations": [], "counters": {"refused_mesh": 1}, "classes": ["refused"], "nontrivial": False}
    V = list(Vh)
    C = dict(mon.C)
    if hist:
        C["history_runs"] = 1
    exc = rr.exception
    if isinstance(exc, sim.StepCapReached):
        if o["adaptive"] and spec["regime"] == "stable":
            V.append({"kind": "dt_did_not_reach_max", "mechanism": "dt_did_not_reach_max",
                      "detail": {"last_dt": mon.dts[-1] if mon.dts else None, "dt_max": o["dt_max"], "steps": len(mon.dts), "note": "run stopped by the harness: it needed more than 4x the steps of a run whose step grows to dt_max"}})
            exc = None
            rr.solution = None
        else:
            rr.cleanup()
            return {"status": "harness_error", "error": "step cap reached in a run that is not adaptive/stable: " + str(exc)}
    if exc is not None and spec["regime"] == "stable" and isinstance(exc, RuntimeError) and "converge" in str(exc):
        # nothing drives this run and the step is inside the stability bound: giving up is not stationarity
        V.append({"kind": "undriven_run_fails", "mechanism": "undriven_run_fails_to_converge", "detail": {"error": str(exc)[:200], "steps_done": C.get("steps_checked", 0)}})
    elif exc is not None and not (spec["regime"] == "above_bound" and isinstance(exc, RuntimeError)):
        rr.cleanup()
        return {"status": "harness_error", "error": "undriven run raised: " + repr(exc)[:300]}
    fd = mon.first_dev
    if spec["regime"] == "stable" and rr.solution is not None and exc is None:
        # what the Solution reports about this run: current densities exactly zero (and finite) at every saved step
        sol_ = rr.solution
        C["derived_quantity_checks"] = 0
        try:
            for st_ in range(int(sol_.data_range[0]), int(sol_.data_range[1]) + 1):
                sol_.solve_step = st_
                C["derived_quantity_checks"] += 1
                td_ = sol_.tdgl_data
                dev_ = float(np.max(np.abs(np.asarray(td_.psi) - 1.0)))
                if dev_ > 1e-12 or np.any(np.asarray(td_.mu) != 0):
                    V.append({"kind": "reported_state_not_uniform", "mechanism": "reported_state_not_uniform", "detail": {"step": st_, "max_abs_psi_minus_1": dev_, "max_abs_mu": float(np.max(np.abs(td_.mu)))}})
                    raise StopIteration
                for nm_ in ("supercurrent_density", "normal_current_density", "current_density"):
                    arr_ = np.asarray(getattr(sol_, nm_).magnitude)
                    if not np.all(np.isfinite(arr_)) or np.any(arr_ != 0):
                        V.append({"kind": "reported_current_density_not_zero", "mechanism": "reported_current_density_not_zero",
                                  "detail": {"quantity": nm_, "step": st_, "nonfinite": int((~np.isfinite(arr_)).sum()), "max_abs": float(np.nanmax(np.abs(arr_))) if np.isfinite(arr_).any() else None}})
                        raise StopIteration
        except StopIteration:
            pass
        # ... and the time steps it reports are the time steps that were taken (they grow to dt_max and stay)
        C["reported_dt_checks"] = 1
        rec_ = [float(x) for x in np.asarray(sol_.dynamics.dt)] if sol_.dynamics is not None else None
        if rec_ != [float(d) for d in getattr(mon, "recorded_dts", [])]:
            V.append({"kind": "reported_time_steps_wrong", "mechanism": "reported_time_steps_wrong",
                      "detail": {"reported": None if rec_ is None else len(rec_), "taken": len(mon.dts), "reported_tail": None if rec_ is None else rec_[-3:], "taken_tail": mon.dts[-3:]}})
    if spec["regime"] == "stable":
        C["stable_regime_runs"] = 1
        C["stable_regime_steps"] = mon.C.get("steps_checked", 0)
        if fd is not None:
            V.append({"kind": "uniform_state_not_stationary", "mechanism": "uniform_state_not_stationary", "detail": fd})
        if not o["adaptive"] and mon.dts:
            C["fixed_step_checks"] = 1
            if any(d != o["dt_init"] for d in mon.dts):
                j = next(i for i, d in enumerate(mon.dts) if d != o["dt_init"])
                V.append({"kind": "fixed_step_changed", "mechanism": "fixed_step_changed", "detail": {"step": j, "dt": mon.dts[j], "dt_init": o["dt_init"], "dt_max": o["dt_max"]}})
        if o["adaptive"] and mon.dts:
            C["dt_growth_checks"] = 1
            # the step must grow to dt_max and stay there
            w = int(o.get("adaptive_window", 10))
            tail = mon.dts[w + 3:]
            if tail and (max(tail) < o["dt_max"] * (1 - 1e-12) or tail[-1] < o["dt_max"] * (1 - 1e-12)):
                V.append({"kind": "dt_did_not_reach_max", "mechanism": "dt_did_not_reach_max", "detail": {"last_dt": tail[-1], "dt_max": o["dt_max"], "steps": len(mon.dts)}})
    else:
        C["above_bound_runs"] = 1
        if fd is not None:
            only_amplified_rounding = (not fd["stable_dt"]) and fd["mu"] == 0 and fd["supercurrent"] == 0 and fd["normal_current"] == 0 and fd["A_induced"] == 0 and fd["imag_psi"] == 0
            mech = "dt_max_above_explicit_stability_bound" if only_amplified_rounding else "uniform_state_not_stationary"
            V.append({"kind": "uniform_state_drifts_above_stability_bound", "mechanism": mech, "detail": {**fd, "max_dev": mon.max_dev, "dt_max": o["dt_max"]}})
    rr.cleanup()
    return {"violations": V, "counters": C, "worst": {"max_abs_psi_minus_1_over_1e-12": mon.max_dev / 1e-12 if spec["regime"] == "stable" else 0.0},
            "classes": ["regime=" + spec["regime"], "history=" + str(spec.get("history")), "adaptive=" + str(o["adaptive"]), "screening=" + str(bool(o.get("include_screening"))),
                        f"terminals={len(spec['device']['terminals'])}", f"holes={len(spec['device']['holes'])}", f"gamma={gamma}", f"u={u}",
                        f"smooth={spec['device']['mesh']['smooth']}"],
            "nontrivial": mon.C.get("steps_checked", 0) >= 30,
            "sample": {"sites": g.n, "dt_star": dt_star, "dt_max": o["dt_max"], "steps": mon.C.get("steps_checked", 0), "max_abs_psi_minus_1": mon.max_dev,
                       "first_deviation": fd}}
