"""C18 Polygon and device geometry operations mean what they say.

Postconditions on the real tdgl.Polygon / tdgl.Device operations, judged by an
independent winding-number membership test (vt/ref/geom.py) at random probe points
away from outlines, shoelace areas/orientation, and byte-level aliasing checks."""
import math

import numpy as np

from ..ref import geom

RULE = (
    "case = batch of random shape pairs / chains (boxes, circles, ellipses, any vertex count, orientation, centre): "
    "stored points closed+CCW, union/intersection/difference and + - * vs winding-number membership of the operands at "
    "probe points > 1e-6 from outlines, rotate/translate/scale (incl. reflections, origins) area and point mapping, "
    "copy / non-inplace aliasing, inplace returns self, Device.contains_points vs film-and-not-holes, Device transforms. "
    "non-trivial = batch in which every operation class was evaluated at least once; distinct = distinct shape pair"
)
REQUIRED_COUNTERS = ["orientation_checks", "setop_checks", "transform_checks", "aliasing_checks", "device_membership_checks", "device_transform_checks"]
CASE_TIMEOUT = {"quick": 600, "thorough": 1800}
ASSUMPTIONS = ["membership is judged only at probe points farther than 1e-6 (relative to size) from every outline involved",
               "Device.copy shares the Mesh object on purpose (nothing mutates it in place): observed, not judged"]


def gen_cases(tier, seed):
    rng = np.random.default_rng(18_000 + seed)
    nb = 16 if tier == "quick" else 64
    per = 20 if tier == "quick" else 80
    return [{"pairs": per, "seed": int(rng.integers(1 << 30)), "cost": 5} for _ in range(nb)]


def rand_shape(rng, scale=1.0, center=None):
    from tdgl.geometry import box, circle, ellipse

    c = tuple((rng.uniform(-1, 1, 2) * scale).tolist()) if center is None else center
    k = rng.integers(3)
    if k == 0:
        return box(float(rng.uniform(0.5, 3) * scale), float(rng.uniform(0.5, 3) * scale), points=int(rng.integers(8, 120)), center=c,
                   angle=float(rng.choice([0, 0, rng.uniform(-180, 180)])))
    if k == 1:
        return circle(float(rng.uniform(0.4, 2) * scale), points=int(rng.integers(5, 100)), center=c)
    return ellipse(float(rng.uniform(0.4, 2.5) * scale), float(rng.uniform(0.3, 1.5) * scale), points=int(rng.integers(6, 100)), center=c,
                   angle=float(rng.uniform(-180, 180)))


def inside(points, poly_pts):
    wn, d = geom.winding_number(points, poly_pts)
    return wn != 0, d


def run_case(spec):
    import tdgl

    rng = np.random.default_rng(spec["seed"])
    V, C = [], {}

    def cnt(k, n=1):
        C[k] = C.get(k, 0) + n

    def viol(kind, detail):
        if len(V) < 10:
            V.append({"kind": kind, "mechanism": kind, "detail": detail})

    def check_stored(poly, what):
        cnt("orientation_checks")
        p = poly.points
        if not np.array_equal(p[0], p[-1]):
            viol("points_not_closed", {"op": what})
        if geom.shoelace(p[:-1]) <= 0:
            viol("points_not_counterclockwise", {"op": what, "signed_area": geom.shoelace(p[:-1])})
        if p.ndim != 2 or p.shape[1] != 2:
            viol("points_bad_shape", {"op": what, "shape": list(p.shape)})

    valueerrors = 0
    # finely sampled outlines far from the origin (vertex spacing far below 1e-5 of the coordinates): stored closed all the same
    from tdgl.geometry import circle as _circle

    for j in range(3):
        scale_f = float(10.0 ** rng.uniform(-1, 1))
        cen_f = tuple((np.array([rng.choice([-1, 1]), rng.choice([-1, 1])]) * rng.uniform(1e3, 1e4, 2) * scale_f).tolist())
        far_pts = _circle(scale_f, points=int(rng.integers(800, 2000)), center=cen_f)
        pf = tdgl.Polygon("far", points=far_pts if j % 2 else far_pts[::-1])
        check_stored(pf, "init_far_fine")
        near = tdgl.Polygon("near", points=_circle(scale_f, points=int(rng.integers(1000, 1600)), center=(0.0, 0.0)))
        moved = near.translate(cen_f[0], cen_f[1])
        check_stored(moved, "translate_far_fine")
        cnt("transform_checks")
        if len(moved.points) != len(near.points):
            viol("translate_changes_vertex_count", {"before": len(near.points), "after": len(moved.points)})
        try:
            un = pf.union(moved)
            check_stored(un, "union_far_fine")
        except ValueError:
            pass
        # membership far from the origin: winding number of the stored outline vs contains_points
        Pf = np.array(cen_f) + rng.uniform(-1.5, 1.5, (40, 2)) * scale_f
        inf_, df_ = inside(Pf, pf.points)
        okf = df_ > 1e-4 * scale_f
        gotf = np.asarray(pf.contains_points(Pf))
        cnt("setop_checks")
        if np.any(okf & (gotf != inf_)):
            viol("membership_wrong_far_from_origin", {"n_wrong": int(np.sum(okf & (gotf != inf_)))})
    for it in range(spec["pairs"]):
        scale = float(10.0 ** rng.uniform(-2, 2))
        a_pts = rand_shape(rng, scale)
        if rng.random() < 0.5:
            a_pts = a_pts[::-1]  # clockwise input must be re-oriented
        b_pts = rand_shape(rng, scale, center=tuple((np.mean(a_pts, axis=0) + rng.uniform(-1.5, 1.5, 2) * scale).tolist()))
        a = tdgl.Polygon("a", points=a_pts)
        b = tdgl.Polygon("b", points=b_pts)
        check_stored(a, "init"); check_stored(b, "init")
        a0, b0 = a.points.copy(), b.points.copy()
        lo = np.minimum(a0.min(0), b0.min(0)) - 0.3 * scale
        hi = np.maximum(a0.max(0), b0.max(0)) + 0.3 * scale
        P = rng.uniform(lo, hi, (400, 2))
        ina, da = inside(P, a0)
        inb, db = inside(P, b0)
        far = (da > 1e-6 * scale) & (db > 1e-6 * scale)
        # --- set operations (method and operator forms)
        for name, fn, want in (
            ("union", lambda: a.union(b), ina | inb), ("intersection", lambda: a.intersection(b), ina & inb),
            ("difference", lambda: a.difference(b), ina & ~inb), ("+", lambda: a + b, ina | inb), ("*", lambda: a * b, ina & inb),
            ("-", lambda: a - b, ina & ~inb), ("union_array", lambda: a.union(b_pts), ina | inb),
            ("from_union", lambda: tdgl.Polygon.from_union([a, b], name="u"), ina | inb),
            ("from_difference", lambda: tdgl.Polygon.from_difference([a, b], name="u"), ina & ~inb),
            ("from_intersection", lambda: tdgl.Polygon.from_intersection([a, b], name="u"), ina & inb),
        ):
            try:
                r = fn()
            except ValueError:
                valueerrors += 1
                continue
            cnt("setop_checks")
            check_stored(r, name)
            inr, dr = inside(P, r.points)
            ok = far & (dr > 1e-6 * scale)
            bad = ok & (inr != want)
            if bad.any():
                i = int(np.argmax(bad))
                viol("setop_membership_wrong", {"op": name, "point": P[i].tolist(), "in_a": bool(ina[i]), "in_b": bool(inb[i]), "in_result": bool(inr[i])})
            got = r.contains_points(P)
            bad = ok & (np.asarray(got) != want)
            if bad.any():
                viol("contains_points_disagrees_with_winding_number", {"op": name})
            # area consistency with the membership estimate is implied; exact: inclusion-exclusion
            cnt("aliasing_checks")
            if not (np.array_equal(a.points, a0) and np.array_equal(b.points, b0)):
                viol("setop_mutated_operand", {"op": name})
            if np.shares_memory(r.points, a.points) or np.shares_memory(r.points, b.points):
                viol("setop_result_aliases_operand", {"op": name})
        # short chains with a third shape (multi-argument forms and operator chains)
        c_pts = rand_shape(rng, scale, center=tuple((np.mean(a_pts, axis=0) + rng.uniform(-1.0, 1.0, 2) * scale).tolist()))
        try:
            c = tdgl.Polygon("c", points=c_pts)
            inc, dc = inside(P, c.points)
            far3 = far & (dc > 1e-6 * scale)
            for name, fn, want in (
                ("union3", lambda: a.union(b, c), ina | inb | inc), ("intersection3", lambda: a.intersection(b, c), ina & inb & inc),
                ("difference3", lambda: a.difference(b, c), ina & ~inb & ~inc), ("(a+b)-c", lambda: (a + b) - c, (ina | inb) & ~inc),
                ("(a-b)+c", lambda: (a - b) + c, (ina & ~inb) | inc), ("(a+b)*c", lambda: (a + b) * c, (ina | inb) & inc),
                ("from_union3", lambda: tdgl.Polygon.from_union([a, b_pts, c], name="u"), ina | inb | inc),
            ):
                try:
                    r = fn()
                except ValueError:
                    valueerrors += 1
                    continue
                cnt("setop_checks")
                cnt("chain_checks")
                check_stored(r, name)
                inr, dr = inside(P, r.points)
                ok = far3 & (dr > 1e-6 * scale)
                bad = ok & (inr != want)
                if bad.any():
                    i = int(np.argmax(bad))
                    viol("setop_membership_wrong", {"op": name, "point": P[i].tolist(), "in_a": bool(ina[i]), "in_b": bool(inb[i]), "in_c": bool(inc[i]), "in_result": bool(inr[i])})
                if not (np.array_equal(a.points, a0) and np.array_equal(b.points, b0)):
                    viol("setop_mutated_operand", {"op": name})
        except ValueError:
            valueerrors += 1
        # inclusion-exclusion on areas (independent of probes)
        try:
            u, i_ = a.union(b), a.intersection(b)
            cnt("setop_checks")
            if abs(u.area + i_.area - a.area - b.area) > 1e-9 * (a.area + b.area):
                viol("inclusion_exclusion_violated", {"areas": [u.area, i_.area, a.area, b.area]})
        except ValueError:
            valueerrors += 1
        # --- transforms
        area0 = abs(geom.shoelace(a0[:-1]))
        if abs(a.area - area0) > 1e-9 * area0:
            viol("area_ne_shoelace", {"area": a.area, "shoelace": area0})
        for name in ("rotate", "translate", "scale"):
            origin = tuple((rng.uniform(-2, 2, 2) * scale).tolist()) if rng.random() < 0.6 else (0.0, 0.0)
            if name == "rotate":
                deg = float(rng.uniform(-720, 720))
                th = math.radians(deg)
                M = np.array([[math.cos(th), -math.sin(th)], [math.sin(th), math.cos(th)]])
                mp = lambda X, M=M, o=np.array(origin): (X - o) @ M.T + o
                fac = 1.0
                call = lambda inplace: a_work.rotate(deg, origin=origin, inplace=inplace)
            elif name == "translate":
                dx, dy = (rng.uniform(-5, 5, 2) * scale).tolist()
                mp = lambda X, d=np.array([dx, dy]): X + d
                fac = 1.0
                call = lambda inplace: a_work.translate(dx, dy, inplace=inplace)
            else:
                fx = float(rng.choice([-1, 1]) * rng.uniform(0.2, 3)); fy = float(rng.choice([-1, 1]) * rng.uniform(0.2, 3))
                mp = lambda X, f=np.array([fx, fy]), o=np.array(origin): (X - o) * f + o
                fac = abs(fx * fy)
                call = lambda inplace: a_work.scale(xfact=fx, yfact=fy, origin=origin, inplace=inplace)
            a_work = a.copy()
            w0 = a_work.points.copy()
            r = call(False)
            cnt("transform_checks")
            check_stored(r, name)
            if r is a_work:
                viol("noninplace_returned_self", {"op": name})
            cnt("aliasing_checks")
            if not np.array_equal(a_work.points, w0):
                viol("noninplace_transform_mutated_original", {"op": name})
            if np.shares_memory(r.points, a_work.points):
                viol("transform_result_aliases_original", {"op": name})
            if abs(r.area - fac * area0) > 1e-9 * max(fac * area0, area0):
                viol("transform_area_wrong", {"op": name, "area": r.area, "expected": fac * area0})
            # probe points mapped with the same affine map keep membership
            Q = mp(P)
            inr, dr = inside(Q, r.points)
            ok = (da > 1e-6 * scale) & (dr > 1e-6 * scale * min(1.0, min(abs(fx), abs(fy)) if name == "scale" else 1.0))
            bad = ok & (inr != ina)
            if bad.any():
                i = int(np.argmax(bad))
                viol("transform_points_do_not_map_consistently", {"op": name, "point": P[i].tolist(), "mapped": Q[i].tolist(), "was_inside": bool(ina[i])})
            if np.any(ok & (np.asarray(r.contains_points(Q)) != ina)):
                viol("contains_points_after_transform_wrong", {"op": name})
            # vertices map to vertices (as a set, orientation may be re-normalised)
            mv = mp(w0[:-1])
            dd = np.min(np.linalg.norm(mv[:, None, :] - r.points[None, :-1, :], axis=2), axis=1)
            if dd.max() > 1e-9 * scale * max(1.0, fac):
                viol("transform_vertices_wrong", {"op": name, "max_vertex_error": float(dd.max())})
            _ = a_work.contains_points(P)  # use the polygon before transforming it in place
            r2 = call(True)
            cnt("aliasing_checks")
            if r2 is not a_work:
                viol("inplace_did_not_return_self", {"op": name})
            if np.any(ok & (np.asarray(a_work.contains_points(Q)) != ina)):
                viol("contains_points_stale_after_inplace_transform", {"op": name})
            if abs(a_work.area - fac * area0) > 1e-9 * max(fac * area0, area0):
                viol("transform_area_wrong", {"op": name + "_inplace"})
            if not np.allclose(a_work.points, r.points, rtol=0, atol=1e-12 * scale * max(1, fac)):
                viol("inplace_ne_noninplace", {"op": name})
            check_stored(a_work, name + "_inplace")
        # identity transforms are copies as well (a zero offset, zero angle, unit factors are ordinary arguments)
        for nm, fn in (("translate(0,0)", lambda: a.translate(0, 0)), ("translate(0.0,0.0)", lambda: a.translate(0.0, 0.0)), ("rotate(0)", lambda: a.rotate(0)),
                       ("scale(1,1)", lambda: a.scale(xfact=1, yfact=1))):
            r0 = fn()
            cnt("aliasing_checks")
            if r0 is a or np.shares_memory(r0.points, a.points):
                viol("transform_result_aliases_original", {"op": nm})
            elif not np.allclose(r0.points, a.points, rtol=0, atol=1e-12 * scale):
                viol("identity_transform_moves_polygon", {"op": nm})
        # origin="centroid": the centre of MASS of the polygon is the fixed point of the transformation
        cnt("transform_checks")
        pts_ = a.points[:-1]
        x_, y_ = pts_[:, 0], pts_[:, 1]
        cr = x_ * np.roll(y_, -1) - np.roll(x_, -1) * y_
        A_ = cr.sum() / 2
        cm = np.array([((x_ + np.roll(x_, -1)) * cr).sum(), ((y_ + np.roll(y_, -1)) * cr).sum()]) / (6 * A_)
        degc = float(rng.uniform(20, 340))
        fxc, fyc = float(rng.uniform(0.3, 2.5)), float(rng.uniform(0.3, 2.5))
        for nm, rr_, mpc in (("rotate", a.rotate(degc, origin="centroid"), lambda X: (X - cm) @ np.array([[math.cos(math.radians(degc)), -math.sin(math.radians(degc))], [math.sin(math.radians(degc)), math.cos(math.radians(degc))]]).T + cm),
                             ("scale", a.scale(xfact=fxc, yfact=fyc, origin="centroid"), lambda X: (X - cm) * np.array([fxc, fyc]) + cm)):
            mvc = mpc(pts_)
            ddc = np.min(np.linalg.norm(mvc[:, None, :] - rr_.points[None, :-1, :], axis=2), axis=1)
            if ddc.max() > 1e-9 * scale * max(1.0, fxc, fyc):
                viol("transform_about_centroid_wrong", {"op": nm, "max_vertex_error": float(ddc.max()), "scale": scale})
        # set operations without operands are copies too
        for nm, fn in (("union()", a.union), ("intersection()", a.intersection), ("difference()", a.difference)):
            r0 = fn()
            cnt("aliasing_checks")
            if r0 is a or np.shares_memory(r0.points, a.points) or not np.array_equal(r0.points, a.points):
                viol("empty_setop_aliases_operand", {"op": nm})
        # copy
        c = a.copy()
        cnt("aliasing_checks")
        if c is a or np.shares_memory(c.points, a.points) or not np.array_equal(c.points, a.points) or c.name != a.name:
            viol("copy_aliases_or_differs", {})
        # resample / buffer keep orientation
        try:
            rs = a.resample(int(rng.integers(10, 80)))
            check_stored(rs, "resample")
        except ValueError:
            valueerrors += 1
        # --- a device WITH a mesh moved in place: mesh, polygons and probe points move together (coherence length != 1)
        if it % 5 == 0:
            try:
                ext_m = float(np.sqrt(area0))
                cen_m = np.mean(a0[:-1], axis=0)
                cand_m = np.array([cen_m + np.array([0.0, 0.2 * ext_m]), cen_m + np.array([0.0, -0.2 * ext_m])])
                in_m, _d = inside(cand_m, a0)
                probes_m = cand_m if in_m.all() else None
                layer_m = tdgl.Layer(coherence_length=float(rng.choice([0.5, 2.0, 0.1])) * ext_m / 10.0, london_lambda=2.0, thickness=0.1)
                dm = tdgl.Device("dm", layer=layer_m, film=tdgl.Polygon("film", points=a_pts), probe_points=probes_m)
                dm.make_mesh(max_edge_length=ext_m / 5.0)
                cnt("device_mesh_move_checks")
                p_before = np.array(dm.points, copy=True)
                idx_before = None if probes_m is None else list(dm.probe_point_indices)
                mv = np.array([0.8 * ext_m, -0.45 * ext_m])
                # a copy taken BEFORE the move (mesh included) is another device: moving the original in place, entering its
                # translation(), or moving the copy in place never drags the other one along (mesh sites, edge centres, outline)
                twin = dm.copy()

                def _snap(d_):
                    return (np.array(d_.points, copy=True), np.array(d_.mesh.edge_mesh.centers, copy=True), np.array(d_.mesh.dual_sites, copy=True),
                            np.array(d_.film.points, copy=True), None if d_.probe_points is None else np.array(d_.probe_points, copy=True))

                def _same(x_, y_):
                    return all((u is None and v is None) or (u is not None and v is not None and u.shape == v.shape and np.array_equal(u, v)) for u, v in zip(x_, y_))

                twin_before = _snap(twin)
                cnt("copy_vs_inplace_move_checks")
                dm.translate(mv[0], mv[1], inplace=True)
                if not _same(_snap(twin), twin_before):
                    viol("inplace_move_drags_the_copy", {"moved": "original", "max_site_shift_of_copy": float(np.max(np.abs(np.asarray(twin.points) - twin_before[0])))})
                    twin_before = _snap(twin)
                dm_now = _snap(dm)
                with twin.translation(0.21 * ext_m, 0.4 * ext_m):
                    if not _same(_snap(dm), dm_now):
                        viol("inplace_move_drags_the_copy", {"moved": "copy, inside translation()", "max_site_shift_of_original": float(np.max(np.abs(np.asarray(dm.points) - dm_now[0])))})
                twin.translate(-0.6 * ext_m, 0.3 * ext_m, inplace=True)
                if not _same(_snap(dm), dm_now):
                    viol("inplace_move_drags_the_copy", {"moved": "copy", "max_site_shift_of_original": float(np.max(np.abs(np.asarray(dm.points) - dm_now[0])))})
                if np.max(np.abs(np.asarray(dm.points) - (p_before + mv))) > 1e-9 * max(ext_m, np.abs(p_before + mv).max()):
                    viol("mesh_does_not_move_with_device", {"xi": float(layer_m.coherence_length), "max_err": float(np.max(np.abs(np.asarray(dm.points) - (p_before + mv))))})
                elif probes_m is not None and list(dm.probe_point_indices) != idx_before:
                    viol("probe_sites_change_under_translation", {})
                with dm.translation(-0.3 * ext_m, 0.2 * ext_m):
                    if np.max(np.abs(np.asarray(dm.points) - (p_before + mv + np.array([-0.3 * ext_m, 0.2 * ext_m])))) > 1e-9 * max(ext_m, np.abs(p_before + mv).max()):
                        viol("mesh_does_not_move_with_device", {"where": "translation()", "xi": float(layer_m.coherence_length)})
            except ValueError:
                C["mesh_move_value_errors"] = C.get("mesh_move_value_errors", 0) + 1
        # --- Device membership: film and not holes
        try:
            film = tdgl.Polygon("film", points=a_pts)
            cen = np.mean(a0[:-1], axis=0)
            ext = np.sqrt(area0)
            holes = []
            for k in range(int(rng.integers(0, 3))):
                hc = cen + np.array([(-0.18 + 0.36 * k) * ext, 0.0])
                holes.append(tdgl.Polygon(f"h{k}", points=rand_shape(rng, 0.04 * ext / 1.0, center=tuple(hc.tolist()))))
            layer = tdgl.Layer(coherence_length=1.0, london_lambda=2.0, thickness=0.1)
            probes = None
            # probe points inside the film, away from the holes
            cand = np.array([cen + np.array([0.0, 0.33 * ext]), cen + np.array([0.0, -0.33 * ext])])
            inf_c, _ = inside(cand, film.points)
            probes = cand if inf_c.all() else None
            dev = tdgl.Device("d", layer=layer, film=film, holes=holes, probe_points=probes)
            cnt("device_membership_checks")
            inf, df = inside(P, film.points)
            want = inf.copy()
            dist = df.copy()
            for hpoly in holes:
                ih, dh = inside(P, hpoly.points)
                want &= ~ih
                dist = np.minimum(dist, dh)
            got = dev.contains_points(P)
            ok = dist > 1e-6 * scale
            bad = ok & (np.asarray(got) != want)
            if bad.any():
                i = int(np.argmax(bad))
                viol("device_membership_wrong", {"point": P[i].tolist(), "n_holes": len(holes), "got": bool(got[i]), "want": bool(want[i])})
            idx = dev.contains_points(P, index=True)
            if not np.array_equal(np.sort(idx), np.where(np.asarray(got))[0]):
                viol("device_membership_index_form_differs", {})
            # device-level transforms / copy
            cnt("device_transform_checks")
            f0 = dev.film.points.copy()
            h0 = [h.points.copy() for h in dev.holes]
            d2 = dev.copy()
            if d2.film is dev.film or np.shares_memory(d2.film.points, dev.film.points) or any(x is y for x, y in zip(d2.holes, dev.holes)):
                viol("device_copy_aliases_polygons", {})
            fx, fy = float(rng.choice([-1, 1]) * rng.uniform(0.5, 2)), float(rng.choice([-1, 1]) * rng.uniform(0.5, 2))
            d3 = dev.scale(xfact=fx, yfact=fy)
            if probes is not None:
                # probe points map with the shapes, also about an origin other than (0, 0)
                org = (float(rng.uniform(-2, 2) * scale), float(rng.uniform(-2, 2) * scale))
                for nm, dd_, mp in (("scale_origin", dev.scale(xfact=fx, yfact=fy, origin=org), lambda X: (X - np.array(org)) * np.array([fx, fy]) + np.array(org)),
                                    ("scale", d3, lambda X: X * np.array([fx, fy])),
                                    ("translate", dev.translate(0.3 * scale, -0.2 * scale), lambda X: X + np.array([0.3 * scale, -0.2 * scale]))):
                    cnt("device_transform_checks")
                    want_p = mp(np.asarray(probes))
                    if dd_.probe_points is None or np.max(np.abs(np.asarray(dd_.probe_points) - want_p)) > 1e-9 * scale * max(1, abs(fx), abs(fy)):
                        viol("device_probe_points_do_not_map_with_shapes", {"op": nm, "origin": org if nm == "scale_origin" else None})
            d4 = dev.rotate(float(rng.uniform(-180, 180)))
            d5 = dev.translate(float(rng.uniform(-1, 1) * scale), float(rng.uniform(-1, 1) * scale))
            # translation() is a context manager: the device is back where it was when the block is left - also by an exception
            cnt("device_context_checks")
            z_before = dev.layer.z0
            pr0 = None if dev.probe_points is None else np.array(dev.probe_points, copy=True)
            class _Boom(Exception):
                pass
            for raise_inside in (False, True):
                try:
                    with dev.translation(0.37 * scale, -0.21 * scale, dz=0.4):
                        if abs(dev.film.points[0, 0] - (f0[0, 0] + 0.37 * scale)) > 1e-9 * scale:
                            viol("translation_context_does_not_move", {})
                        if raise_inside:
                            raise _Boom()
                except _Boom:
                    pass
                if (np.max(np.abs(dev.film.points - f0)) > 1e-12 * max(scale, np.abs(f0).max()) or abs(dev.layer.z0 - z_before) > 1e-12
                        or any(np.max(np.abs(h.points - x)) > 1e-12 * max(scale, np.abs(x).max()) for h, x in zip(dev.holes, h0))
                        or (pr0 is not None and np.max(np.abs(np.asarray(dev.probe_points) - pr0)) > 1e-12 * max(scale, np.abs(pr0).max()))):
                    viol("device_left_displaced_by_translation_context", {"exception_in_block": raise_inside, "film_shift": float(np.max(np.abs(dev.film.points - f0))), "z0": [z_before, dev.layer.z0]})
                    break
            # (there and back in floating point: the outlines may differ from the originals in the last bits from here on)
            f0 = dev.film.points.copy()
            h0 = [h.points.copy() for h in dev.holes]
            # the layer belongs to the device: derived devices never share it with, or write through to, the original
            cnt("device_layer_aliasing_checks")
            lay0 = (dev.layer.z0, dev.layer.coherence_length, dev.layer.london_lambda, dev.layer.thickness)
            d6 = dev.translate(0.1 * scale, 0.0, dz=0.7)
            if abs(d6.layer.z0 - (lay0[0] + 0.7)) > 1e-12:
                viol("device_translate_dz_not_applied", {"z0": d6.layer.z0})
            for nm, dd_ in (("copy", d2), ("scale", d3), ("rotate", d4), ("translate", d5), ("translate_dz", d6)):
                if dd_.layer is dev.layer:
                    viol("derived_device_shares_layer", {"op": nm})
            d2.layer.coherence_length = 2.5 * lay0[1]
            d4.layer.z0 = lay0[0] - 3.0
            now = (dev.layer.z0, dev.layer.coherence_length, dev.layer.london_lambda, dev.layer.thickness)
            if now != lay0:
                viol("device_transform_mutated_original", {"what": "layer", "before": lay0, "after": now})
            if not np.array_equal(dev.film.points, f0) or any(not np.array_equal(h.points, x) for h, x in zip(dev.holes, h0)):
                viol("device_transform_mutated_original", {})
            for dd_, nm, fac in ((d3, "scale", abs(fx * fy)), (d4, "rotate", 1.0), (d5, "translate", 1.0)):
                if abs(dd_.film.area - fac * dev.film.area) > 1e-9 * max(1, fac) * dev.film.area:
                    viol("device_transform_area_wrong", {"op": nm})
                check_stored(dd_.film, "device_" + nm)
                for hh in dd_.holes:
                    check_stored(hh, "device_" + nm + "_hole")
            Q = (P - 0) * np.array([fx, fy])
            got3 = d3.contains_points(Q)
            ok3 = dist > 1e-6 * scale * max(1.0, 1 / min(abs(fx), abs(fy)))
            if np.any(ok3 & (np.asarray(got3) != want)):
                viol("device_scale_points_do_not_map", {"fx": fx, "fy": fy})
        except ValueError:
            valueerrors += 1
    C["legitimate_value_errors"] = valueerrors
    need = ["orientation_checks", "setop_checks", "transform_checks", "aliasing_checks", "device_membership_checks", "device_transform_checks"]
    return {"violations": V, "counters": C, "classes": ["polygons"], "nontrivial": all(C.get(k, 0) > 0 for k in need),
            "nontrivial_n": spec["pairs"], "key": f"batch{spec['seed']}",
            "sample": {"pairs": spec["pairs"], "setops_checked": C.get("setop_checks", 0), "value_errors_counted": valueerrors}}
