"""C11 The trajectory depends only on the physics and can be resumed.

Differential monitor. (a) One physics input is run under many recording
configurations (save interval, output file vs temp dir, probes present/absent,
progress reporting on/off); frames carrying the same step label must be bit-identical in
every dataset and in time, and the sequences of states returned by update (hashed at the
hook) must coincide. (b) A fixed-step run with a static drive is split at every point
N1+N2=N: the second run is seeded with the loaded Solution of the first; its frame s must
equal frame N1+s of the uninterrupted run bit for bit (with and without screening)."""
import copy

import numpy as np

from .. import runcheck, sim, simmon, zoo
from . import _simcases as S

RULE = (
    "observe case = one physics input (device, drive incl. time-dependent ones, adaptive or fixed, screening on/off) run under 7-9 "
    "recording configurations: save_every in {1,2,3,7,N,N+1}, output file / temp dir, probe points present / absent, progress "
    "interval 0 (tqdm) / 5 (logging); resume case = one fixed-step static-drive input split at every N1 in 1..N-1 (quick: 4 splits); "
    "resume variants whose drive changes BEFORE the first split and is constant afterwards (field ramped for 3.5 steps then held; currents I0 tanh(2t/dt)), "
    "continued with the static value and with the same time-dependent object shifted by T1. "
    "non-trivial = >= 2 configurations (or >= 1 split) compared on >= 5 common frames; distinct = distinct physics spec"
)
REQUIRED_COUNTERS = ["configurations_compared", "common_frame_comparisons", "update_sequence_comparisons", "resume_splits", "resume_frame_comparisons"]
CASE_TIMEOUT = {"quick": 900, "thorough": 2400}
ASSUMPTIONS = ["frames are compared by sha256 of bytes+dtype+shape of every dataset; timestamps excluded"]


def gen_cases(tier, seed):
    rng = np.random.default_rng(11_000 + seed)
    cases = []
    n = 5 if tier == "quick" else 40
    for k in range(n):
        scr = (k % 5 == 4)
        nt = int([2, 0, 2, 3][k % 4])
        dev = zoo.gen_device(rng, n_terminals=nt, n_holes=int(nt == 0), probes=2, size="tiny" if scr else "small", smooth=0)
        adaptive = bool(k % 2)
        o = S.base_options(rng, adaptive=adaptive, steps=(10 if tier == "quick" else 25) if scr else 40, screening=scr)
        if not adaptive:
            o["auto_dt"] = {"steps": 40, "frac": 0.3, "exact": True}
            if k % 4 == 2:
                o["auto_dt"]["therm_steps"] = 13  # thermalised: frame 0 holds the state left by 13 unrecorded steps (no multiple of any save interval used)
        drive = {"A": S.field_spec(rng, dev, o, ["uniform", "ramp", "osc", "uniform"][k % 4], b=0.25),
                 "currents": S.current_spec(rng, dev, o, ["const", "callable"][k % 2] if nt else "none", strength=0.15),
                 "epsilon": {"kind": ["one", "spatial", "time"][k % 3]}}
        cases.append({"kind": "observe", "device": dev, "options": o, "drive": drive, "nconfigs": 4 if (scr and tier == "quick") else 8, "cost": 60 if scr else 15})
    m = 3 if tier == "quick" else 16
    for k in range(m):
        scr = (k % 3 == 2)
        nt = int([0, 2][k % 2])
        dev = zoo.gen_device(rng, n_terminals=nt, n_holes=0, probes=2 if nt else 0, size="tiny", smooth=0)
        N = int(rng.integers(6, 13)) if not (scr and tier == "quick") else 6
        dt = 2e-3
        o = dict(dt_init=dt, dt_max=0.1, adaptive=False, save_every=1, field_units="mT", current_units="uA", output="file")
        if scr:
            o.update(include_screening=True, screening_tolerance=1e-3, max_iterations_per_step=1000)
        drive = {"A": S.field_spec(rng, dev, o | {"solve_time": 1.0}, "uniform", b=0.25),
                 "currents": S.current_spec(rng, dev, o | {"solve_time": 1.0}, "const" if nt else "none", strength=0.15)}
        splits = list(range(1, N)) if tier == "thorough" else sorted(set(int(x) for x in rng.choice(np.arange(1, N), size=min(4 if not scr else 2, N - 1), replace=False)))
        cases.append({"kind": "resume", "device": dev, "options": o, "drive": drive, "N": N, "dt": dt, "splits": splits, "terminal_psi": [0.0, "none"][k % 2], "cost": 60 if scr else 15})
    # drives that CHANGE during the first part and are constant from before the first split point on: the solver of the
    # uninterrupted run has a history (refreshed link variables, remembered boundary currents), the solver of the resumed run
    # has none; the continuation is stated as the static drive and as the same time-dependent object shifted by T1
    rng2 = np.random.default_rng(11_500 + seed)
    for k in range(2 if tier == "quick" else 8):
        variant = ["ramp_hold", "softstart"][k % 2]
        nt = 2 if variant == "softstart" else int([0, 2][(k // 2) % 2])
        dev = zoo.gen_device(rng2, n_terminals=nt, n_holes=int(nt == 0), probes=2 if nt else 0, size="tiny", smooth=0)
        N = 16
        o = dict(dt_init=2e-3, dt_max=0.1, adaptive=False, save_every=1, field_units="mT", current_units="uA", output="file")
        drive = {"A": S.field_spec(rng2, dev, o | {"solve_time": 1.0}, "uniform", b=0.25),
                 "currents": S.current_spec(rng2, dev, o | {"solve_time": 1.0}, "const" if nt else "none", strength=0.15)}
        splits = [11, 12, 14] if tier == "quick" else [11, 12, 13, 14, 15]
        cases.append({"kind": "resume", "variant": variant, "device": dev, "options": o, "drive": drive, "N": N, "dt": 2e-3, "splits": splits,
                      "terminal_psi": [0.0, "none"][(k // 2) % 2], "cost": 20})
    return cases


def _frames_of(rr, tm):
    import os

    path = rr.output_path
    if path and os.path.exists(path):
        return runcheck.read_frames(path)[0]
    if tm.snapshot is not None:
        return tm.snapshot[0]
    return None


def _dyn_digest(sol):
    if sol is None or sol.dynamics is None:
        return None
    d = sol.dynamics
    out = {"n": int(len(np.asarray(d.dt)))}
    for key in ("dt", "time", "mu", "theta"):
        v = getattr(d, key, None)
        if v is not None:
            out[key] = simmon.h(np.asarray(v))
    return out


def _observe(sol, C):
    """Everything a user does to LOOK at a solution: plots, derived quantities, fields. None of it may change the solution."""
    import matplotlib

    matplotlib.use("Agg")
    import matplotlib.pyplot as plt

    pts = np.asarray(sol.device.points)
    P = np.array([[pts[:, 0].mean(), pts[:, 1].mean(), 1.0], [pts[:, 0].min(), pts[:, 1].max(), 0.5]])
    calls = [
        ("plot_order_parameter", lambda: sol.plot_order_parameter()),
        ("plot_currents", lambda: sol.plot_currents()),
        ("plot_scalar_potential", lambda: sol.plot_scalar_potential()),
        ("plot_vorticity", lambda: sol.plot_vorticity()),
        ("plot_field_at_positions", lambda: sol.plot_field_at_positions(P)),
        ("current_density", lambda: sol.current_density),
        ("vorticity", lambda: sol.vorticity),
        ("field_at_position", lambda: sol.field_at_position(P)),
        ("vector_potential_at_position", lambda: sol.vector_potential_at_position(P)),
        ("interp_current_density", lambda: sol.interp_current_density(P[:, :2])),
        ("interp_order_parameter", lambda: sol.interp_order_parameter(P[:, :2])),
        ("grid_current_density", lambda: sol.grid_current_density(grid_shape=(20, 20))),
    ]
    for name, fn in calls:
        try:
            fn()
            C["observer_calls"] = C.get("observer_calls", 0) + 1
        except Exception:
            # several plotting paths fail in this environment (numpy 2 / shapely) exactly as in the repository's own tests
            C["observer_calls_raised"] = C.get("observer_calls_raised", 0) + 1
        finally:
            plt.close("all")


def case_observe(spec):
    dev, why = zoo.try_build_device(spec["device"])
    if dev is None:
        return {"violations": [], "counters": {"refused_mesh": 1}, "classes": ["refused"], "nontrivial": False}
    dev_noprobe = dev.copy()
    dev_noprobe.probe_points = None
    base = spec["options"]
    # pilot to learn N
    tm = simmon.TraceMonitor()
    rr = sim.run_sim(spec, [tm], device=dev)
    if rr.refused:
        return {"violations": [], "counters": {"refused_mesh": 1}, "classes": ["refused"], "nontrivial": False}
    if rr.exception is not None:
        rr.cleanup()
        if isinstance(rr.exception, RuntimeError) and "converge" in str(rr.exception):
            return {"violations": [], "counters": {"runs_ending_in_nonconvergence": 1}, "classes": ["nonconvergence"], "nontrivial": False}
        return {"status": "harness_error", "error": repr(rr.exception)[:300]}
    ref_updates = [u["hashes"] for st in tm.stages for u in st["updates"]]
    ref_dts = [u["dt"] for st in tm.stages for u in st["updates"]]
    N = len(ref_updates)
    ref_frames = {int(f["attrs"]["step"]): f for f in _frames_of(rr, tm)}
    ref_dyn = _dyn_digest(rr.solution)
    rr.cleanup()
    configs = []
    for i, k in enumerate([1, 2, 3, 7, max(N, 1), N + 1]):
        configs.append(dict(save_every=k, output=["file", "temp"][i % 2], probes=bool(i % 2 == 0), progress_interval=[10**9, 0, 5][i % 3]))
    configs.append(dict(save_every=base["save_every"], output="temp", probes=False, progress_interval=0))
    configs.append(dict(save_every=base["save_every"], output="file", probes=True, progress_interval=5))
    configs.insert(1, dict(save_every=base["save_every"], output="file", probes=True, progress_interval=10**9, occupied=True))
    if spec.get("nconfigs", 8) < len(configs):
        configs = configs[:2] + configs[-(spec["nconfigs"] - 2):]
    V, C = [], {"configurations_compared": 0, "common_frame_comparisons": 0, "update_sequence_comparisons": 0}
    all_frames = {s: {"ref": f} for s, f in ref_frames.items()}
    for ci, cfg in enumerate(configs):
        sp = copy.deepcopy(spec)
        sp["options"].update(save_every=cfg["save_every"], output=cfg["output"], progress_interval=cfg["progress_interval"])
        tm2 = simmon.TraceMonitor()
        workdir = None
        if cfg.get("occupied"):
            # the requested output path already holds the result of an earlier, different simulation
            import tempfile

            workdir = tempfile.mkdtemp(prefix="vt_c11_")
            other = copy.deepcopy(spec)
            other["options"].update(save_every=3, output="file")
            other["options"]["solve_time"] = 0.5 * other["options"]["solve_time"]
            if "auto_dt" in other["options"]:
                other["options"]["auto_dt"] = dict(other["options"]["auto_dt"], steps=max(3, other["options"]["auto_dt"]["steps"] // 2))
            other["drive"] = {"A": {"kind": "zero"}}
            r0 = sim.run_sim(other, [], device=dev, workdir=workdir, keep_dir=True)
            if r0.exception is not None:
                return {"status": "harness_error", "error": "occupying run failed: " + repr(r0.exception)[:200]}
        rr2 = sim.run_sim(sp, [tm2], device=dev if cfg["probes"] else dev_noprobe, workdir=workdir)
        if rr2.exception is not None:
            V.append({"kind": "configuration_changes_outcome", "mechanism": "recording_configuration_changes_outcome", "detail": {"config": cfg, "raised": repr(rr2.exception)[:200]}})
            rr2.cleanup()
            continue
        C["configurations_compared"] += 1
        ups = [u["hashes"] for st in tm2.stages for u in st["updates"]]
        dts = [u["dt"] for st in tm2.stages for u in st["updates"]]
        C["update_sequence_comparisons"] += 1
        if dts != ref_dts:
            j = next((i for i, (a, b) in enumerate(zip(dts, ref_dts)) if a != b), min(len(dts), len(ref_dts)))
            V.append({"kind": "dt_sequence_differs", "mechanism": "observation_changes_trajectory", "detail": {"config": cfg, "first_difference_at_step": j, "lengths": [len(dts), len(ref_dts)]}})
        elif ups != ref_updates:
            j = next(i for i, (a, b) in enumerate(zip(ups, ref_updates)) if a != b)
            V.append({"kind": "state_sequence_differs", "mechanism": "observation_changes_trajectory", "detail": {"config": cfg, "first_difference_at_step": j, "datasets": [k for k in ups[j] if ups[j][k] != ref_updates[j].get(k)]}})
        # the per-step records of the loaded Solution are per STEP: they cannot depend on how often frames were written
        dd = _dyn_digest(rr2.solution)
        if ref_dyn is not None and dd is not None:
            C["dynamics_comparisons"] = C.get("dynamics_comparisons", 0) + 1
            for key in ("dt", "time") + (("mu", "theta") if cfg["probes"] else ()):
                if key in ref_dyn and key in dd and ref_dyn[key] != dd[key]:
                    V.append({"kind": "per_step_records_differ", "mechanism": "recording_configuration_changes_records",
                              "detail": {"config": cfg, "record": key, "lengths": [dd["n"], ref_dyn["n"]]}})
                    break
        frames = _frames_of(rr2, tm2)
        rr2.cleanup()
        if frames is None:
            continue
        for f in frames:
            s = int(f["attrs"]["step"])
            for name, other in all_frames.get(s, {}).items():
                C["common_frame_comparisons"] += 1
                if f["attrs"].get("time") != other["attrs"].get("time"):
                    V.append({"kind": "frame_time_differs", "mechanism": "same_step_label_different_frame", "detail": {"config": cfg, "other": name, "step": s, "times": [f["attrs"].get("time"), other["attrs"].get("time")]}})
                diff = [k for k in f["hashes"] if k in other["hashes"] and f["hashes"][k] != other["hashes"][k]]
                if diff:
                    V.append({"kind": "frame_differs", "mechanism": "same_step_label_different_frame", "detail": {"config": cfg, "other": name, "step": s, "datasets": diff}})
            all_frames.setdefault(s, {})[f"cfg{ci}"] = f
        if len(V) > 8:
            break
    return {"violations": V[:8], "counters": C, "classes": ["observe"] + S.classes_of(spec)[2:7],
            "nontrivial": C["configurations_compared"] >= 2 and C["common_frame_comparisons"] >= 5,
            "sample": {"N": N, "configurations": C["configurations_compared"], "common_frame_comparisons": C["common_frame_comparisons"]}}


def case_resume(spec):
    import tdgl

    dev, why = zoo.try_build_device(spec["device"])
    if dev is None:
        return {"violations": [], "counters": {"refused_mesh": 1}, "classes": ["refused"], "nontrivial": False}
    N, dt = spec["N"], spec["dt"]
    V, C = [], {"resume_splits": 0, "resume_frame_comparisons": 0}

    variant = spec.get("variant")
    if variant:
        # one step for all runs of the case, taken once from the mesh (no per-run rescaling of the drive's times: the first
        # part must be the uninterrupted run bit for bit)
        from .. import stability

        dt = 0.3 * stability.dt_star(dev)

    def run(nsteps, seed_solution=None, t_shift=None, static=False):
        sp = copy.deepcopy(spec)
        if variant:
            sp["options"].update(dt_init=dt, dt_max=max(0.1, dt), solve_time=nsteps * dt - dt / 2)
            A, cur = sp["drive"]["A"], sp["drive"]["currents"]
            t0 = 0.0 if t_shift is None else t_shift
            if variant == "ramp_hold" and not static:
                # ramped up during the first 3.5 steps, held afterwards
                sp["drive"]["A"] = {"kind": "ramp", "B": A["B"], "tmin": 0.0 - t0, "tmax": 3.5 * dt - t0}
            if variant == "softstart" and not static:
                # soft start I0 tanh(t / tau), tau = dt / 2: increments below 1e-5 I0 from step 4 on, exactly I0 from step 10 on
                sp["drive"]["currents"] = {"kind": "softstart", "values": cur["values"], "tau": 0.5 * dt, "t0": t0}
        else:
            sp["options"]["auto_dt"] = {"steps": nsteps, "frac": 0.3, "exact": True}
            sp["options"]["solve_time"] = nsteps * dt - dt / 2
        sp["options"]["terminal_psi"] = spec["terminal_psi"]
        tm = simmon.TraceMonitor()
        rr = sim.run_sim(sp, [tm], device=dev, seed_solution=seed_solution, keep_dir=True)
        return rr, tm

    rr0, tm0 = run(N)
    if rr0.refused:
        return {"violations": [], "counters": {"refused_mesh": 1}, "classes": ["refused"], "nontrivial": False}
    if rr0.exception is not None:
        return {"status": "harness_error", "error": "uninterrupted run failed: " + repr(rr0.exception)[:300]}
    full = {int(f["attrs"]["step"]): f for f in runcheck.read_frames(rr0.output_path)[0]}
    import shutil

    for N1 in spec["splits"]:
        rr1, tm1 = run(N1)
        if rr1.exception is not None or rr1.solution is None:
            return {"status": "harness_error", "error": "first part failed: " + repr(rr1.exception)[:300]}
        # continue from the saved final state, loaded from disk as a user would
        # ... or the Solution object that solve() returned; either way the user has LOOKED at it first (plots, fields, ...)
        seed = tdgl.Solution.from_hdf5(rr1.output_path) if C["resume_splits"] % 2 == 0 else rr1.solution
        seed_before = {f: simmon.h(np.asarray(getattr(seed.tdgl_data, f))) for f in ("psi", "mu", "supercurrent", "normal_current", "induced_vector_potential")}
        _observe(seed, C)
        seen = {f: simmon.h(np.asarray(getattr(seed.tdgl_data, f))) for f in seed_before}
        if seen != seed_before:
            V.append({"kind": "looking_at_a_solution_changes_it", "mechanism": "observation_mutates_solution", "detail": {"N": N, "N1": N1, "fields": [f for f in seed_before if seed_before[f] != seen[f]]}})
            seed_before = seen
        if variant:
            # the same drive from the split point on: alternately the static value and the time-dependent object shifted by T1
            form = ["static", "shifted"][C["resume_splits"] % 2] if len(spec["splits"]) > 1 else "shifted"
            if C["resume_splits"] == len(spec["splits"]) - 1 and len(spec["splits"]) % 2 == 1:
                form = "shifted"
            rr2, tm2 = run(N - N1, seed_solution=seed, t_shift=N1 * dt, static=(form == "static"))
            C["continuations_" + form] = C.get("continuations_" + form, 0) + 1
        else:
            rr2, tm2 = run(N - N1, seed_solution=seed)
        C["resume_splits"] += 1
        seed_after = {f: simmon.h(np.asarray(getattr(seed.tdgl_data, f))) for f in seed_before}
        if seed_after != seed_before:
            V.append({"kind": "seed_solution_mutated_by_run", "mechanism": "seed_solution_mutated", "detail": {"N": N, "N1": N1, "fields": [f for f in seed_before if seed_before[f] != seed_after[f]]}})
        if rr2.exception is not None:
            V.append({"kind": "resumed_run_raised", "mechanism": "resumed_run_raised", "detail": {"N": N, "N1": N1, "raised": repr(rr2.exception)[:200]}})
        else:
            part = {int(f["attrs"]["step"]): f for f in runcheck.read_frames(rr2.output_path)[0]}
            for s, f in sorted(part.items()):
                g = full.get(N1 + s)
                if g is None:
                    V.append({"kind": "resumed_frame_without_counterpart", "mechanism": "resume_differs", "detail": {"N": N, "N1": N1, "s": s}})
                    continue
                C["resume_frame_comparisons"] += 1
                diff = [k for k in f["hashes"] if k in g["hashes"] and f["hashes"][k] != g["hashes"][k]]
                if diff:
                    V.append({"kind": "resumed_frame_differs", "mechanism": "resume_differs",
                              "detail": {"N": N, "N1": N1, "frame_of_resumed_run": s, "datasets": diff,
                                         "max_abs_psi_diff": float(np.max(np.abs(f["arrays"]["psi"] - g["arrays"]["psi"])))}})
                    break
        shutil.rmtree(rr1.outdir, ignore_errors=True)
        shutil.rmtree(rr2.outdir, ignore_errors=True)
        if len(V) > 6:
            break
    shutil.rmtree(rr0.outdir, ignore_errors=True)
    return {"violations": V[:6], "counters": C, "classes": ["resume", "screening=" + str(bool(spec["options"].get("include_screening"))), "terminal_psi=" + str(spec["terminal_psi"]), "drive_before_split=" + str(variant or "static")],
            "nontrivial": C["resume_splits"] >= 1 and C["resume_frame_comparisons"] >= 5,
            "sample": {"N": N, "splits": spec["splits"], "frames_compared": C["resume_frame_comparisons"]}}


def run_case(spec):
    return case_observe(spec) if spec["kind"] == "observe" else case_resume(spec)
