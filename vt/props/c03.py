"""C03 Finite-volume operators obey the discrete calculus identities.

Monitor: postconditions on the matrices returned by the real builders
(build_divergence / build_gradient / build_laplacian /
build_neumann_boundary_laplacian), on every mesh of the zoo, plus an entry-wise
comparison with the independent per-edge assembly in vt/ref/fv.py."""
import numpy as np
import scipy.linalg as sla
import scipy.sparse as sp

from .. import meshzoo
from ..ref import fv

RULE = (
    "cases = meshes from the zoo (device-generated incl. holes/smoothing, hexagonal, random "
    "Delaunay, annulus, explicit Mesh/EdgeMesh with random positive areas and dual lengths over "
    "2-6 decades); each case evaluates 9 identities with random edge/site fields and vector "
    "potentials; non-trivial = mesh built (not refused) with >= 20 sites and every identity "
    "evaluated; distinct = distinct mesh spec"
)
REQUIRED_COUNTERS = ["lap_eq_div_grad", "div_sums_to_zero", "boundary_flux_integral", "symmetric_nsd", "nullspace_constants", "covariant_hermitian", "gradient_exact_linear", "ref_entrywise", "live_covariant_hermitian", "smoothed_mesh_checks", "container_checks", "mesh_unchanged_checks"]
CASE_TIMEOUT = {"quick": 600, "thorough": 3600}
ASSUMPTIONS = [
    "numpy/scipy dense eigensolvers are correct",
    "geometry arrays of the mesh object (edges, lengths, dual lengths, areas) are taken as the definition of the operators here; their own correctness is C07",
]


def gen_cases(tier, seed):
    rng = np.random.default_rng(1000 + seed)
    n = 14 if tier == "quick" else 160
    specs = meshzoo.gen_mesh_specs(rng, n, max_sites=300 if tier == "quick" else 1200)
    cases = [{"mesh": s, "seed": int(rng.integers(1 << 30)), "cost": 1} for s in specs]
    for j, c_ in enumerate(cases):
        if j % 4 == 1:
            c_["via_hdf5"] = True  # the mesh is written to a file and read back before the operators are built on it
    for (nx_, ny_, hy_) in [(3, 5, 0.75), (5, 8, 0.75), (11, 8, 0.75), (2, 2, float(np.sqrt(3) / 2)), (2, 11, float(np.sqrt(3) / 2)), (4, 4, 0.75)]:
        # very regular lattices: on some of them the LU factor of the (singular) Neumann Laplacian is EXACTLY singular and the
        # container refuses; whatever it does, the operators it holds are the operators of the mesh
        cases.append({"mesh": {"kind": "lattice", "nx": nx_, "ny": ny_, "hy": hy_}, "seed": int(rng.integers(1 << 30)), "cost": 1})
    for j in range(2 if tier == "quick" else 6):
        # explicit meshes some of whose dual edge lengths are EXACTLY zero (right-angled triangles): a zero weight is a weight
        cases.append({"mesh": {"kind": "explicit", "base": [{"kind": "grid", "nx": 6, "ny": 5, "scale": 1.0}, {"kind": "delaunay", "n": 64}][j % 2], "decades": 2,
                               "zero_duals": float([0.1, 0.25][j % 2]), "seed": int(rng.integers(1 << 30))}, "seed": int(rng.integers(1 << 30)), "cost": 1})
    for j in range(3 if tier == "quick" else 8):
        # meshes at a tiny ABSOLUTE scale (coordinates ~1e-8: a length is a length, whatever its numerical size)
        cases.append({"mesh": {"kind": ["hex", "delaunay", "hex"][j % 3], "nx": 7, "ny": 6, "n": 64, "jitter": 0.1, "scale": float([1.2e-7, 3e-9, 5e-8][j % 3]), "seed": int(rng.integers(1 << 30))},
                      "seed": int(rng.integers(1 << 30)), "cost": 1})
    for j in range(2 if tier == "quick" else 6):
        # the operators a TDGLSolver actually holds (device with terminals, default and non-default terminal_psi)
        cases.append({"kind": "solver_operators", "nt": [2, 3][j % 2], "terminal_psi": [0.0, "none", 0.5][j % 3], "seed": int(rng.integers(1 << 30)), "cost": 3, "mesh": {"kind": "solver_device"}})
    for j in range(1 if tier == "quick" else 3):
        # more than 2^15 edges (~11-20 thousand sites): sparse-only identities after in-place refreshes
        cases.append({"kind": "large", "nx": int([112, 130, 150][j]), "ny": int([110, 125, 140][j]), "seed": int(rng.integers(1 << 30)), "cost": 30, "mesh": {"kind": "large_hex"}})
    return cases


def _large_case(spec):
    """A mesh with more than 2^15 edges: sparse-only identities of the operators in use after in-place refreshes."""
    from tdgl.finite_volume.mesh import Mesh
    from tdgl.finite_volume.operators import MeshOperators
    from tdgl.solver.options import SparseSolver

    rng = np.random.default_rng(spec["seed"])
    mesh, info = meshzoo.build_mesh({"kind": "hex", "nx": spec["nx"], "ny": spec["ny"], "jitter": 0.05, "seed": spec["seed"]})
    if mesh is None:
        return {"violations": [], "counters": {"refused_mesh": 1}, "classes": ["refused"], "nontrivial": False}
    em = mesh.edge_mesh
    n, m = len(mesh.sites), len(em.edges)
    a = np.asarray(mesh.areas)
    V, C, worst = [], {"large_mesh_checks": 0}, {}
    live = MeshOperators(mesh, SparseSolver.SUPERLU, fixed_sites=None)
    try:
        live.build_operators()
    except RuntimeError as exc:
        if "exactly singular" in str(exc):
            return {"violations": [], "counters": {"refused_mesh": 1}, "classes": ["refused"], "nontrivial": False}
        raise
    for step, amp in enumerate((0.7, 2.0, 0.0, 1.3)):
        A = rng.normal(size=(m, 2)) * amp
        live.set_link_exponents(A)
        C["large_mesh_checks"] += 1
        L = sp.csr_matrix(live.psi_laplacian)
        ML = sp.diags(a) @ L
        h = abs(ML - ML.conj().T).max()
        scale = abs(ML).max()
        worst["live_covariant_hermitian"] = max(worst.get("live_covariant_hermitian", 0.0), float(h / (1e-12 * scale)))
        if h > 1e-12 * scale:
            V.append({"kind": "live_covariant_laplacian_not_hermitian", "mechanism": "live_covariant_laplacian_not_hermitian", "detail": {"asym": float(h), "scale": float(scale), "edges": m, "refresh": step}})
        Lr = fv.laplacian_fast(n, em.edges, em.edge_lengths, em.dual_edge_lengths, a, em.directions, A)
        d = fv.max_abs_diff(L, Lr)
        if d > 1e-11 * abs(Lr).max():
            V.append({"kind": "live_covariant_laplacian_ne_reference", "mechanism": "live_covariant_laplacian_ne_reference", "detail": {"max_abs_diff": float(d), "edges": m, "refresh": step}})
        Gr = fv.gradient_fast(n, em.edges, em.edge_lengths, em.directions, A)
        d = fv.max_abs_diff(sp.csr_matrix(live.psi_gradient), Gr)
        if d > 1e-11 * abs(Gr).max():
            V.append({"kind": "live_covariant_gradient_ne_reference", "mechanism": "live_covariant_gradient_ne_reference", "detail": {"max_abs_diff": float(d), "edges": m, "refresh": step}})
        if amp == 0.0:
            # (only for A = 0 is the Laplacian the divergence of the gradient: the covariant gradient lives on the edge, its
            # parallel transport to the far site costs a phase)
            DG = sp.csr_matrix(live.divergence) @ sp.csr_matrix(live.psi_gradient)
            d = fv.max_abs_diff(L, DG)
            if d > 1e-10 * abs(L).max():
                V.append({"kind": "lap_ne_div_grad", "mechanism": "lap_ne_div_grad", "detail": {"max_abs_diff": float(d), "edges": m}})
    return {"violations": V[:6], "counters": C, "worst": worst, "classes": ["large_mesh", f"edges>{(m // 10000) * 10000}"], "nontrivial": m > 32768,
            "sample": {"sites": n, "edges": m}}


def _solver_operator_case(spec):
    """The scalar operators inside a constructed TDGLSolver are the operators of its mesh."""
    import tdgl

    from .. import sim, zoo

    rng = np.random.default_rng(spec["seed"])
    dspec = zoo.gen_device(rng, n_terminals=spec["nt"], n_holes=0, probes=0, size="small", smooth=0)
    dev, why = zoo.try_build_device(dspec)
    if dev is None:
        return {"violations": [], "counters": {"refused_mesh": 1}, "classes": ["refused"], "nontrivial": False}
    o = sim.build_options(dict(solve_time=0.1, dt_init=1e-3, dt_max=0.01, adaptive=True, save_every=10, field_units="mT", current_units="uA", terminal_psi=spec["terminal_psi"]), output_file=None)
    try:
        solver = tdgl.TDGLSolver(dev, o, applied_vector_potential=0.1, terminal_currents={t.name: 0.0 for t in dev.terminals})
    except RuntimeError as exc:
        if "exactly singular" in str(exc):
            return {"violations": [], "counters": {"refused_mesh": 1}, "classes": ["refused"], "nontrivial": False}
        raise
    mesh = dev.mesh
    em = mesh.edge_mesh
    n, m = len(mesh.sites), len(em.edges)
    a = np.asarray(mesh.areas)
    mo = solver.operators
    V, C = [], {"solver_operator_checks": 1}
    Dref = fv.divergence(n, em.edges, em.dual_edge_lengths, a)
    Gref = fv.gradient(n, em.edges, em.edge_lengths, em.directions, None)
    Lref = fv.laplacian_fast(n, em.edges, em.edge_lengths, em.dual_edge_lengths, a, em.directions, None, None)
    Bref = fv.boundary_flux(n, em.edges, em.edge_lengths, a, em.boundary_edge_indices)
    for name, got, want in (("divergence", mo.divergence, Dref), ("mu_gradient", mo.mu_gradient, Gref), ("mu_laplacian", mo.mu_laplacian, Lref), ("mu_boundary_laplacian", mo.mu_boundary_laplacian, Bref)):
        dd = fv.max_abs_diff(sp.csr_matrix(got), want)
        if dd > 1e-12 * abs(want).max():
            V.append({"kind": "solver_operator_ne_reference", "mechanism": "container_operator_ne_reference", "detail": {"operator": name, "max_abs_diff": float(dd), "terminal_psi": spec["terminal_psi"]}})
    F = rng.normal(size=m)
    tot, mag = float(a @ (sp.csr_matrix(mo.divergence) @ F)), float(a @ (abs(sp.csr_matrix(mo.divergence)) @ np.abs(F)))
    if abs(tot) > 1e-11 * mag:
        V.append({"kind": "div_sum_nonzero", "mechanism": "div_sum_nonzero", "detail": {"where": "TDGLSolver.operators", "sum": tot, "magnitude": mag}})
    q = rng.normal(size=len(em.boundary_edge_indices))
    lhs, rhs = float(a @ (sp.csr_matrix(mo.mu_boundary_laplacian) @ q)), float(em.edge_lengths[em.boundary_edge_indices] @ q)
    if abs(lhs - rhs) > 1e-11 * float(em.edge_lengths[em.boundary_edge_indices] @ np.abs(q)):
        V.append({"kind": "boundary_flux_integral_wrong", "mechanism": "boundary_flux_integral_wrong", "detail": {"where": "TDGLSolver.operators", "lhs": lhs, "rhs": rhs}})
    return {"violations": V, "counters": C, "classes": ["solver_operators", f"terminal_psi={spec['terminal_psi']}"], "nontrivial": True, "sample": {"sites": n, "edges": m}}


def run_case(spec):
    if spec.get("kind") == "large":
        return _large_case(spec)
    if spec.get("kind") == "solver_operators":
        return _solver_operator_case(spec)
    from tdgl.finite_volume import operators as ops

    rng = np.random.default_rng(spec["seed"])
    mesh, info = meshzoo.build_mesh(spec["mesh"])
    if mesh is None:
        return {"violations": [], "counters": {"refused_mesh": 1}, "classes": ["refused"], "nontrivial": False}
    V = []
    C = {}
    worst = {}
    if spec.get("via_hdf5"):
        import os
        import shutil
        import tempfile

        import h5py
        from tdgl.finite_volume.mesh import Mesh

        tmpd_ = tempfile.mkdtemp(prefix="vt_c03_")
        try:
            with h5py.File(os.path.join(tmpd_, "mesh.h5"), "w") as f_:
                mesh.to_hdf5(f_.create_group("mesh"))
            with h5py.File(os.path.join(tmpd_, "mesh.h5"), "r") as f_:
                mesh = Mesh.from_hdf5(f_["mesh"])
        finally:
            shutil.rmtree(tmpd_, ignore_errors=True)
        C["meshes_read_back_from_a_file"] = 1

    def viol(kind, detail):
        V.append({"kind": kind, "mechanism": kind, "detail": detail})

    def note(name, val, gate):
        C[name] = C.get(name, 0) + 1
        worst[name] = max(worst.get(name, 0.0), float(val) / gate)
        return val > gate

    em = mesh.edge_mesh
    n, m = len(mesh.sites), len(em.edges)
    a = mesh.areas
    # the builders must not modify the mesh they are given (checked at the end)
    snapshot = {k: np.array(v, copy=True) for k, v in (("sites", mesh.sites), ("areas", mesh.areas), ("edges", em.edges), ("edge_lengths", em.edge_lengths),
                                                       ("dual_edge_lengths", em.dual_edge_lengths), ("directions", em.directions), ("centers", em.centers))}
    if spec["seed"] % 2:
        # builder call order is part of the workload: Laplacian first for odd seeds
        ops.build_laplacian(mesh)
        ops.build_laplacian(mesh, link_exponents=rng.normal(size=(m, 2)))
    D = ops.build_divergence(mesh)
    G = ops.build_gradient(mesh)
    L, _ = ops.build_laplacian(mesh)
    B = ops.build_neumann_boundary_laplacian(mesh)
    Ld = sp.csr_matrix(L)
    scaleL = abs(Ld).max()

    # 1. Laplacian = div grad
    d = fv.max_abs_diff(Ld, D @ G)
    if note("lap_eq_div_grad", d, 1e-10 * scaleL):
        viol("lap_ne_div_grad", {"max_abs_diff": d, "scale": scaleL})

    # 2. area-weighted sum of the divergence of any edge field is zero
    for _ in range(3):
        F = rng.normal(size=m) * 10.0 ** rng.uniform(-3, 3)
        tot = float(a @ (D @ F))
        mag = float(a @ (abs(D) @ np.abs(F)))
        if note("div_sums_to_zero", abs(tot), 1e-11 * mag):
            viol("div_sum_nonzero", {"sum": tot, "magnitude": mag})

    # 3. boundary flux integrates to sum(l_b q_b)
    bidx = em.boundary_edge_indices
    for _ in range(3):
        q = rng.normal(size=len(bidx))
        lhs = float(a @ (B @ q))
        rhs = float(em.edge_lengths[bidx] @ q)
        mag = float(em.edge_lengths[bidx] @ np.abs(q))
        if note("boundary_flux_integral", abs(lhs - rhs), 1e-11 * mag):
            viol("boundary_flux_integral_wrong", {"lhs": lhs, "rhs": rhs})

    # 4. diag(a) L symmetric, NSD
    M = (sp.diags(a) @ Ld).toarray()
    if np.iscomplexobj(M):
        if np.abs(M.imag).max() > 0:
            viol("scalar_laplacian_complex", {"max_imag": float(np.abs(M.imag).max())})
        M = M.real
    asym = float(np.abs(M - M.T).max())
    scaleM = float(np.abs(M).max())
    if note("symmetric_nsd", asym, 1e-12 * scaleM):
        viol("weighted_laplacian_not_symmetric", {"asym": asym, "scale": scaleM})
    s = 1.0 / np.sqrt(a)
    S = (M + M.T) / 2 * s[:, None] * s[None, :]
    ev = sla.eigvalsh(S)
    rad = float(np.abs(ev).max())
    if note("symmetric_nsd", max(ev.max(), 0.0), 1e-9 * rad):
        viol("laplacian_positive_eigenvalue", {"max_eig": float(ev.max()), "radius": rad})

    # 5. null space = constants exactly (connected mesh)
    ones = np.ones(n)
    r = float(np.abs(Ld @ ones).max())
    if note("nullspace_constants", r, 1e-10 * scaleL):
        viol("constants_not_annihilated", {"max_row_sum": r})
    # grounded matrix must be negative definite <=> nullity exactly 1
    Mg = -(M + M.T)[1:, 1:] / 2
    dg = np.sqrt(np.abs(np.diag(Mg)))
    dg[dg == 0] = 1.0
    Mg = Mg / dg[:, None] / dg[None, :]
    C["nullspace_constants"] += 1
    try:
        sla.cholesky(Mg)
    except sla.LinAlgError:
        # confirm with eigenvalues before reporting
        evg = sla.eigvalsh(Mg)
        if evg.min() <= 1e-13 * evg.max():
            viol("nullspace_larger_than_constants", {"min_eig_grounded": float(evg.min()), "max": float(evg.max())})

    # 6. covariant Laplacian Hermitian in the area-weighted inner product, any A
    for amp in (0.3, 3.0, 40.0):
        A = rng.normal(size=(m, 2)) * amp
        LA, _ = ops.build_laplacian(mesh, link_exponents=A)
        MA = (sp.diags(a) @ sp.csr_matrix(LA)).toarray()
        h = float(np.abs(MA - MA.conj().T).max())
        if note("covariant_hermitian", h, 1e-12 * float(np.abs(MA).max())):
            viol("covariant_laplacian_not_hermitian", {"asym": h, "amp": amp})
        # entrywise vs reference
        Lref = (fv.laplacian if n <= 400 else fv.laplacian_fast)(n, em.edges, em.edge_lengths, em.dual_edge_lengths, a, em.directions, A)
        d = fv.max_abs_diff(LA, Lref)
        if note("ref_entrywise", d, 1e-11 * abs(Lref).max()):
            viol("covariant_laplacian_ne_reference", {"max_abs_diff": d, "amp": amp})
        GA = ops.build_gradient(mesh, link_exponents=A)
        Gref = (fv.gradient if n <= 400 else fv.gradient_fast)(n, em.edges, em.edge_lengths, em.directions, A)
        d = fv.max_abs_diff(GA, Gref)
        if note("ref_entrywise", d, 1e-11 * abs(Gref).max()):
            viol("covariant_gradient_ne_reference", {"max_abs_diff": d, "amp": amp})

    # 7. gradient exact on linear functions (checked against the site pairs)
    sites = mesh.sites
    rij = sites[em.edges[:, 1]] - sites[em.edges[:, 0]]
    lij = np.hypot(rij[:, 0], rij[:, 1])
    for _ in range(3):
        g = rng.normal(size=2)
        b = rng.normal()
        f = sites @ g + b
        got = G @ f
        want = (rij @ g) / lij
        err = float(np.abs(got - want).max())
        mag = float(np.abs(f).max() / lij.min() + np.abs(want).max())
        if note("gradient_exact_linear", err, 1e-11 * mag):
            viol("gradient_not_exact_on_linear", {"err": err, "mag": mag})

    # 8. entrywise vs reference for the A = 0 operators
    Dref = fv.divergence(n, em.edges, em.dual_edge_lengths, a)
    if note("ref_entrywise", fv.max_abs_diff(D, Dref), 1e-12 * abs(Dref).max()):
        viol("divergence_ne_reference", {"max_abs_diff": fv.max_abs_diff(D, Dref)})
    Gref = fv.gradient(n, em.edges, em.edge_lengths, em.directions, None)
    if note("ref_entrywise", fv.max_abs_diff(G, Gref), 1e-12 * abs(Gref).max()):
        viol("gradient_ne_reference", {"max_abs_diff": fv.max_abs_diff(G, Gref)})
    Lref = fv.laplacian(n, em.edges, em.edge_lengths, em.dual_edge_lengths, a, em.directions, None)
    if note("ref_entrywise", fv.max_abs_diff(Ld, Lref), 1e-12 * abs(Lref).max()):
        viol("laplacian_ne_reference", {"max_abs_diff": fv.max_abs_diff(Ld, Lref)})
    Bref = fv.boundary_flux(n, em.edges, em.edge_lengths, a, bidx)
    if note("ref_entrywise", fv.max_abs_diff(B, Bref), 1e-12 * abs(Bref).max()):
        viol("boundary_flux_ne_reference", {"max_abs_diff": fv.max_abs_diff(B, Bref)})

    # 9. the covariant Laplacian IN USE (live MeshOperators, refreshed in place) stays Hermitian
    from tdgl.finite_volume.operators import MeshOperators
    from tdgl.solver.options import SparseSolver

    try:
        live = MeshOperators(mesh, SparseSolver.SUPERLU, fixed_sites=None)
        live.build_operators()
        for amp in (0.0, 0.5, 5.0, 0.0, 2.0):
            A = rng.normal(size=(m, 2)) * amp
            live.set_link_exponents(A)
            ML = (sp.diags(a) @ sp.csr_matrix(live.psi_laplacian)).toarray()
            h = float(np.abs(ML - ML.conj().T).max())
            if note("live_covariant_hermitian", h, 1e-12 * float(np.abs(ML).max())):
                viol("live_covariant_laplacian_not_hermitian", {"asym": h, "amp": amp})
            Gl = sp.csr_matrix(live.psi_gradient)
            Gr = fv.gradient_fast(n, em.edges, em.edge_lengths, em.directions, A)
            if note("live_covariant_hermitian", fv.max_abs_diff(Gl, Gr), 1e-11 * abs(Gr).max()):
                viol("live_covariant_gradient_ne_reference", {"amp": amp})
            # a LOCALISED change: the next potential differs from this one on a subset of the edges only
            sub = rng.random(m) < float(rng.choice([0.05, 0.3, 0.7]))
            if sub.any() and not sub.all():
                A2 = A.copy()
                A2[sub] += rng.normal(size=(int(sub.sum()), 2))
                live.set_link_exponents(A2)
                ML = (sp.diags(a) @ sp.csr_matrix(live.psi_laplacian)).toarray()
                h = float(np.abs(ML - ML.conj().T).max())
                if note("live_covariant_hermitian", h, 1e-12 * float(np.abs(ML).max())):
                    viol("live_covariant_laplacian_not_hermitian", {"asym": h, "after": "localised change of the potential", "fraction_of_edges": float(sub.mean())})
                Lr2 = fv.laplacian_fast(n, em.edges, em.edge_lengths, em.dual_edge_lengths, a, em.directions, A2)
                if note("ref_entrywise", fv.max_abs_diff(sp.csr_matrix(live.psi_laplacian), Lr2), 1e-11 * abs(Lr2).max()):
                    viol("live_covariant_laplacian_ne_reference", {"after": "localised change of the potential"})
        # the caller keeps ONE array and changes it in place between the calls (halved, then set to zero): the operators are
        # those of the values handed over at each call; at zero they are the plain operators (L = div grad again)
        buf = rng.normal(size=(m, 2)) * 1.5
        live.set_link_exponents(buf)
        for how_ in ("halved in place", "zeroed in place"):
            if how_ == "halved in place":
                buf *= 0.5
            else:
                buf[:] = 0.0
            live.set_link_exponents(buf)
            Lb_ref = fv.laplacian_fast(n, em.edges, em.edge_lengths, em.dual_edge_lengths, a, em.directions, buf)
            Gb_ref = fv.gradient_fast(n, em.edges, em.edge_lengths, em.directions, buf)
            C["same_array_changed_in_place_checks"] = C.get("same_array_changed_in_place_checks", 0) + 1
            if note("ref_entrywise", fv.max_abs_diff(sp.csr_matrix(live.psi_laplacian), Lb_ref), 1e-11 * abs(Lb_ref).max()):
                viol("live_covariant_laplacian_ne_reference", {"after": "the caller's array was " + how_})
            if note("ref_entrywise", fv.max_abs_diff(sp.csr_matrix(live.psi_gradient), Gb_ref), 1e-11 * abs(Gb_ref).max()):
                viol("live_covariant_gradient_ne_reference", {"after": "the caller's array was " + how_})
    except RuntimeError as exc:
        if "exactly singular" not in str(exc):
            raise
        C["live_operator_refused_singular"] = 1

    # 9b. the operator container, for every sparse-solver variant that can be constructed here, and with
    # terminal-like fixed sites whose pinning is switched off (fix_psi=False): same identities
    bsel = np.sort(rng.choice(mesh.boundary_indices, size=max(2, len(mesh.boundary_indices) // 5), replace=False)).astype(np.int64)
    for solver_kind in (SparseSolver.SUPERLU, SparseSolver.PARDISO):
        for fixed, fix_psi in ((None, True), (bsel, False), (bsel, True)):
            try:
                mo = MeshOperators(mesh, solver_kind, fixed_sites=fixed, fix_psi=fix_psi)
                mo.build_operators()
            except RuntimeError as exc:
                if "exactly singular" in str(exc):
                    continue
                raise
            C["container_checks"] = C.get("container_checks", 0) + 1
            Lmu = sp.csr_matrix(mo.mu_laplacian)
            for name, got, want in (("mu_laplacian", Lmu, Lref), ("divergence", mo.divergence, Dref), ("mu_gradient", mo.mu_gradient, Gref), ("mu_boundary_laplacian", mo.mu_boundary_laplacian, Bref)):
                dd = fv.max_abs_diff(got, want)
                if note("ref_entrywise", dd, 1e-12 * abs(want).max()):
                    viol("container_operator_ne_reference", {"operator": name, "sparse_solver": solver_kind.name, "max_abs_diff": dd})
            A = rng.normal(size=(m, 2))
            fx = fixed if (fix_psi and fixed is not None) else None
            for nth, Ak in enumerate((A, 0.5 * A, np.zeros_like(A), rng.normal(size=(m, 2)))):
                mo.set_link_exponents(Ak)
                Lp = sp.csr_matrix(mo.psi_laplacian)
                Lp_ref = fv.laplacian_fast(n, em.edges, em.edge_lengths, em.dual_edge_lengths, a, em.directions, Ak, fx)
                if note("ref_entrywise", fv.max_abs_diff(Lp, Lp_ref), 1e-11 * abs(Lp_ref).max()):
                    viol("container_psi_laplacian_ne_reference", {"sparse_solver": solver_kind.name, "fixed_sites": fixed is not None, "fix_psi": fix_psi, "refresh_number": nth})
                    break
                if fx is not None:
                    # Hermitian on the free sites in the area-weighted inner product
                    free = np.setdiff1d(np.arange(n), fx)
                    MLf = (sp.diags(a) @ Lp).toarray()[np.ix_(free, free)]
                    hh = float(np.abs(MLf - MLf.conj().T).max())
                    if note("live_covariant_hermitian", hh, 1e-12 * max(float(np.abs(MLf).max()), 1e-300)):
                        viol("live_covariant_laplacian_not_hermitian", {"asym": hh, "block": "free sites", "refresh_number": nth})
                        break
            if fx is None:
                ML = (sp.diags(a) @ Lp).toarray()
                hh = float(np.abs(ML - ML.conj().T).max())
                if note("live_covariant_hermitian", hh, 1e-12 * float(np.abs(ML).max())):
                    viol("live_covariant_laplacian_not_hermitian", {"asym": hh, "fixed_sites_unpinned": fixed is not None})

    # 9d. explicit positive edge weights handed to the builders (`weights=`): the operators of THOSE weights
    for dec in (1, 4):
        w = 10.0 ** rng.uniform(-dec, dec, m)
        for A in (None, rng.normal(size=(m, 2))):
            Lw, _ = ops.build_laplacian(mesh, link_exponents=A, weights=w)
            Lw = sp.csr_matrix(Lw)
            Lw_ref = fv.laplacian_fast(n, em.edges, em.edge_lengths, w * em.edge_lengths, a, em.directions, A)
            C["explicit_weight_checks"] = C.get("explicit_weight_checks", 0) + 1
            if note("ref_entrywise", fv.max_abs_diff(Lw, Lw_ref), 1e-11 * abs(Lw_ref).max()):
                viol("laplacian_with_explicit_weights_ne_reference", {"decades": dec, "covariant": A is not None, "max_abs_diff": fv.max_abs_diff(Lw, Lw_ref)})
            if A is None:
                r_ = float(np.abs(Lw @ np.ones(n)).max())
                if note("nullspace_constants", r_, 1e-10 * abs(Lw).max()):
                    viol("constants_not_annihilated", {"with": "explicit weights", "max_row_sum": r_})
                Mw = (sp.diags(a) @ Lw).toarray()
                if note("symmetric_nsd", float(np.abs(Mw - Mw.conj().T).max()), 1e-12 * float(np.abs(Mw).max())):
                    viol("weighted_laplacian_not_symmetric", {"with": "explicit weights"})
        gw = 10.0 ** rng.uniform(-dec, dec, m)
        Gw = sp.csr_matrix(ops.build_gradient(mesh, weights=gw))
        Gw_ref = sp.csr_matrix(sp.diags(gw * em.edge_lengths) @ fv.gradient_fast(n, em.edges, em.edge_lengths, em.directions, None))
        if note("ref_entrywise", fv.max_abs_diff(Gw, Gw_ref), 1e-11 * abs(Gw_ref).max()):
            viol("gradient_with_explicit_weights_ne_reference", {"decades": dec})

    # 9e. the order in which a triangle's vertices are listed is not geometry: the same triangulation listed clockwise has the same cell areas and dual edge lengths
    if spec["mesh"]["kind"] != "explicit" and mesh.voronoi_polygons is not None:
        from tdgl.finite_volume.mesh import Mesh as _Mesh

        el0 = np.asarray(mesh.elements)
        # (consistently, that is: a listing in which neighbouring triangles run in opposite senses is not accepted by
        # from_triangulation - IndexError or silently wrong dual lengths, DESIGN 6b - and is not part of the workload)
        for how in ("all_clockwise",):
            el = el0[:, ::-1].copy()
            try:
                m2 = _Mesh.from_triangulation(np.array(mesh.sites, copy=True), el)
            except ValueError as exc:
                if "Malformed Voronoi" in str(exc):
                    continue
                raise
            C["orientation_checks"] = C.get("orientation_checks", 0) + 1
            key0 = {tuple(sorted(e)): k for k, e in enumerate(np.asarray(em.edges).tolist())}
            e2 = np.asarray(m2.edge_mesh.edges)
            idx = np.array([key0.get(tuple(sorted(e)), -1) for e in e2.tolist()])
            if (idx < 0).any() or len(e2) != m:
                viol("listing_order_changes_edges", {"how": how})
                continue
            dd = float(np.abs(np.asarray(m2.edge_mesh.dual_edge_lengths) - np.asarray(em.dual_edge_lengths)[idx]).max())
            da = float(np.abs(np.asarray(m2.areas) - a).max())
            if note("orientation_independent", dd, 1e-9 * float(np.abs(em.dual_edge_lengths).max())) or note("orientation_independent", da, 1e-9 * float(a.max())):
                viol("listing_order_changes_geometry", {"how": how, "max_dual_length_change": dd, "max_area_change": da})

    # 9c. no builder modified the mesh
    now = {"sites": mesh.sites, "areas": mesh.areas, "edges": em.edges, "edge_lengths": em.edge_lengths, "dual_edge_lengths": em.dual_edge_lengths,
           "directions": em.directions, "centers": em.centers}
    C["mesh_unchanged_checks"] = 1
    for k_, v_ in snapshot.items():
        if not np.array_equal(v_, np.asarray(now[k_])):
            viol("builder_mutated_mesh", {"array": k_, "max_change": float(np.abs(np.asarray(now[k_], dtype=float) - v_).max())})
    d_ = fv.max_abs_diff(sp.csr_matrix(ops.build_laplacian(mesh)[0]), ops.build_divergence(mesh) @ ops.build_gradient(mesh))
    if note("lap_eq_div_grad", d_, 1e-10 * scaleL):
        viol("lap_ne_div_grad", {"when": "rebuilt at the end", "max_abs_diff": d_})

    # 10. smoothing returns new meshes that obey the identities and leaves the source mesh untouched
    if mesh.voronoi_polygons is not None and spec["mesh"]["kind"] != "explicit":
        sites_before = np.array(mesh.sites, copy=True)
        for it in ((1, 2, 3) if n <= 500 else (2,)):
            try:
                sm = mesh.smooth(it)
            except ValueError as exc:
                if "Malformed Voronoi" in str(exc) or "NaN" in str(exc):
                    C["smooth_refused"] = C.get("smooth_refused", 0) + 1
                    continue
                raise
            C["smoothed_mesh_checks"] = C.get("smoothed_mesh_checks", 0) + 1
            for msh, nm in ((sm, f"smoothed{it}"), (mesh, f"source_after_smooth{it}")):
                st = np.asarray(msh.sites)
                e_ = msh.edge_mesh.edges
                rij_ = st[e_[:, 1]] - st[e_[:, 0]]
                lij_ = np.hypot(rij_[:, 0], rij_[:, 1])
                Gm = ops.build_gradient(msh)
                gvec = rng.normal(size=2)
                got = Gm @ (st @ gvec + 0.3)
                want = (rij_ @ gvec) / lij_
                err = float(np.abs(got - want).max())
                mag = float(np.abs(st @ gvec + 0.3).max() / lij_.min() + np.abs(want).max())  # (conditioning: the constant 0.3 cancels in differences of O(|f|))
                if note("gradient_exact_linear", err, 1e-10 * mag):
                    viol("gradient_not_exact_on_linear", {"mesh": nm, "err": err, "mag": mag})
                Lm, _ = ops.build_laplacian(msh)
                d_ = fv.max_abs_diff(sp.csr_matrix(Lm), ops.build_divergence(msh) @ Gm)
                if note("lap_eq_div_grad", d_, 1e-10 * abs(sp.csr_matrix(Lm)).max()):
                    viol("lap_ne_div_grad", {"mesh": nm})
            if not np.array_equal(np.asarray(mesh.sites), sites_before):
                viol("smooth_mutated_source_mesh", {"iterations": it, "max_shift": float(np.abs(np.asarray(mesh.sites) - sites_before).max())})
                break
            if np.shares_memory(np.asarray(sm.sites), np.asarray(mesh.sites)):
                viol("smoothed_mesh_aliases_source_sites", {"iterations": it})

    # ---- the SAME Mesh object with other (positive) cell areas / dual edge lengths written into its arrays: operators built
    # afterwards belong to the new data (nothing may be remembered per mesh object)
    try:
        areas_arr, duals_arr = mesh.areas, em.dual_edge_lengths
        writable = isinstance(areas_arr, np.ndarray) and isinstance(duals_arr, np.ndarray) and areas_arr.flags.writeable and duals_arr.flags.writeable
    except Exception:
        writable = False
    if writable:
        areas_arr *= rng.uniform(0.5, 2.0, n)
        duals_arr *= rng.uniform(0.5, 2.0, m)
        D2 = ops.build_divergence(mesh)
        G2 = ops.build_gradient(mesh)
        L2, _ = ops.build_laplacian(mesh)
        L2 = sp.csr_matrix(L2)
        C["rebuilt_after_data_change"] = 1
        d = fv.max_abs_diff(L2, D2 @ G2)
        if note("lap_eq_div_grad", d, 1e-10 * abs(L2).max()):
            viol("lap_ne_div_grad", {"after": "areas and dual edge lengths of the same Mesh object changed", "max_abs_diff": d})
        F = rng.normal(size=m)
        tot, mag = float(areas_arr @ (D2 @ F)), float(areas_arr @ (abs(D2) @ np.abs(F)))
        if note("div_sums_to_zero", abs(tot), 1e-11 * mag):
            viol("div_sum_nonzero", {"after": "areas and dual edge lengths of the same Mesh object changed", "sum": tot, "magnitude": mag})
        Dref = fv.divergence(n, em.edges, duals_arr, areas_arr)
        if Dref is not None:
            d = fv.max_abs_diff(sp.csr_matrix(D2), Dref)
            if note("entrywise_reference", d, 1e-12 * abs(Dref).max()):
                viol("divergence_ne_reference", {"after": "data change", "max_abs_diff": d})

    kind = spec["mesh"]["kind"] + ("/" + spec["mesh"].get("shape", "") if spec["mesh"].get("shape") else "")
    if spec["mesh"]["kind"] == "explicit":
        kind += f"/{spec['mesh']['base']['kind']}/dec{spec['mesh']['decades']}"
    return {
        "violations": V,
        "counters": C,
        "worst": worst,
        "classes": [kind, f"sites<{100 * (n // 100 + 1)}"],
        "nontrivial": n >= 20,
        "sample": {"sites": n, "edges": m, "boundary_edges": int(len(bidx)), "worst_ratio_to_gate": max(worst.values())},
    }
