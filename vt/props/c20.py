"""C20 Fields and potentials computed from currents are linear and correct.

L1 differential monitors against direct SI sums (vt/ref/em.py): biot_savart_2d scalar and
vector forms, linearity and superposition; current_loop_vector_potential against
quadrature (off-axis, near-axis, on-axis); convert_field round trips. L2: on solved
devices, Solution.field_at_position / vector_potential_at_position: total = sum of parts,
parts = direct sums from the solution's own current densities and areas, several units."""
import numpy as np

from .. import sim, zoo
from ..ref import em, units
from . import _simcases as S

RULE = (
    "L1 case = batch of random current distributions (1..400 cells, positions/areas over 4 decades, unit choices um/nm/mm x "
    "uA/mA/nA), evaluation points off the sheet; loop potentials for random radii/centres/units at off-axis, small-elliptic-parameter (rho/a down to 1e-7, r/a up to 1e4, judged relative to |A| there), near-axis and exactly "
    "on-axis points; convert_field round trips H<->B over units. L2 case = one solved device with evaluation points above/below "
    "the film. non-trivial = all clause counters of the case > 0; distinct = distinct seed/spec"
)
REQUIRED_COUNTERS = ["biot_savart_checks", "linearity_checks", "scalar_vs_vector_checks", "loop_checks", "loop_on_axis_checks", "loop_small_m_checks", "convert_checks", "solution_field_checks", "solution_potential_checks"]
CASE_TIMEOUT = {"quick": 600, "thorough": 1800}
ASSUMPTIONS = ["CODATA 2018 mu0 (relative gate 1e-7 admits scipy's CODATA edition)", "sheet currents are the Solution's own current densities (their relation to edge currents is C08/C13)"]

LU = {"um": 1e-6, "nm": 1e-9, "mm": 1e-3}
CU = {"uA": 1e-6, "mA": 1e-3, "nA": 1e-9, "A": 1.0}


def gen_cases(tier, seed):
    rng = np.random.default_rng(20_000 + seed)
    n1 = 12 if tier == "quick" else 80
    cases = [{"layer": "L1", "n": 12 if tier == "quick" else 25, "seed": int(rng.integers(1 << 30)), "cost": 5} for _ in range(n1)]
    n2 = 3 if tier == "quick" else 10
    for k in range(n2):
        nt = int(rng.choice([0, 2]))
        dev = zoo.gen_device(rng, n_terminals=nt, n_holes=int(nt == 0 and k % 2), probes=0, size="small")
        # films away from z = 0 as well (layer.z0 != 0)
        dev["layer"]["z0"] = [0.0, 1.5, -0.7][k % 3] * dev["layer"]["xi"]
        lu = ["um", "nm", "mm"][k % 3]
        if lu != "um":
            dev = zoo.scale_device_spec(dev, {"nm": 1e3, "mm": 1e-3}[lu], lu)
        o = S.base_options(rng, adaptive=True, steps=60)
        o["field_units"] = ["mT", "uT", "T"][k % 3]
        o["current_units"] = ["uA", "nA", "mA"][k % 3]
        drive = {"A": S.field_spec(rng, dev, o, ["uniform", "ramp", "loop"][k % 3], b=0.3), "currents": S.current_spec(rng, dev, o, "const" if nt else "none", strength=0.2)}  # (loop: A depends on z)
        cases.append({"layer": "L2", "device": dev, "options": o, "drive": drive, "seed": int(rng.integers(1 << 30)), "cost": 15})
    for k in range(1 if tier == "quick" else 3):
        # a tilted uniform field: the applied vector potential has a z component (the film only feels the in-plane part; the
        # potential reported at a position is the whole vector)
        dev = zoo.gen_device(rng, n_terminals=0, n_holes=int(k % 2), probes=0, size="small")
        o = S.base_options(rng, adaptive=True, steps=60)
        A_ = S.field_spec(rng, dev, o, "uniform", b=0.3)
        cases.append({"layer": "L2", "device": dev, "options": o, "drive": {"A": {"kind": "tilted", "B": A_["B"], "Bx": 1.7 * A_["B"]}, "currents": {"kind": "none"}},
                      "seed": int(rng.integers(1 << 30)), "cost": 15})
    nw = 1 if tier == "quick" else 4
    for k in range(nw):
        # weakly driven device stated in large current units: every current density is a tiny NUMBER (1e-10 A/um and below), not a zero
        nt = [2, 0][k % 2]
        dev = zoo.gen_device(rng, n_terminals=nt, n_holes=0, probes=0, size="small")
        o = S.base_options(rng, adaptive=True, steps=60)
        o.update(dt_max=0.01, dt_init=1e-3, solve_time=0.4)  # (well inside the explicit stability bound of these meshes, see C17)
        o["field_units"] = ["mT", "T"][k % 2]
        o["current_units"] = ["A", "mA"][k % 2]
        bw = [1e-6, 1e-9][k % 2]
        drive = {"A": S.field_spec(rng, dev, o, "uniform", b=bw), "currents": S.current_spec(rng, dev, o, "const" if nt else "none", strength=bw)}
        cases.append({"layer": "L2", "weak": True, "device": dev, "options": o, "drive": drive, "seed": int(rng.integers(1 << 30)), "cost": 15})
    return cases


def _l1(spec):
    import tdgl
    from tdgl.em import biot_savart_2d, convert_field, current_loop_vector_potential

    rng = np.random.default_rng(spec["seed"])
    V, C, W = [], {}, {}

    def cnt(k, n=1):
        C[k] = C.get(k, 0) + n

    def viol(kind, detail):
        if len(V) < 8:
            V.append({"kind": kind, "mechanism": kind, "detail": detail})

    def rel(a, b):
        a = np.asarray(a, float); b = np.asarray(b, float)
        return float(np.max(np.abs(a - b)) / (np.max(np.abs(b)) + 1e-300))

    for _ in range(spec["n"]):
        lu = str(rng.choice(list(LU))); cu = str(rng.choice(list(CU)))
        m = int(rng.integers(1, 400)); n = int(rng.integers(1, 60))
        size = 10.0 ** rng.uniform(-1, 2)
        pos = rng.uniform(-1, 1, (m, 2)) * size
        areas = 10.0 ** rng.uniform(-3, 0, m) * size**2 / m
        z0 = float(rng.normal() * size * 0.1)
        J1 = rng.normal(size=(m, 2)) * 10.0 ** rng.uniform(-2, 3)
        J2 = rng.normal(size=(m, 2)) * 10.0 ** rng.uniform(-2, 3)
        ex = rng.uniform(-1.5, 1.5, n) * size; ey = rng.uniform(-1.5, 1.5, n) * size
        ez = z0 + rng.choice([-1, 1], n) * 10.0 ** rng.uniform(-2, 0.5, n) * size
        if rng.random() < 0.3:
            ez = float(z0 + size * 0.37)  # scalar z
        kw = dict(positions=pos, z0=z0, areas=areas, length_units=lu, current_units=cu)
        Bv = biot_savart_2d(ex, ey, ez, current_densities=J1, vector=True, **kw)
        Bz = biot_savart_2d(ex, ey, ez, current_densities=J1, vector=False, **kw)
        if str(Bv.units) != "tesla":
            viol("biot_savart_units_wrong", {"units": str(Bv.units)})
        Bv = np.asarray(Bv.magnitude); Bz = np.asarray(Bz.magnitude)
        ezz = np.broadcast_to(np.asarray(ez, float), ex.shape)
        ev = np.stack([ex, ey, ezz], axis=1) * LU[lu]
        src = np.concatenate([pos, z0 * np.ones((m, 1))], axis=1) * LU[lu]
        ref = em.biot_savart_sheet(ev, src, J1 * CU[cu] / LU[lu], areas * LU[lu] ** 2)
        cnt("biot_savart_checks")
        r = rel(Bv, ref); W["biot_savart"] = max(W.get("biot_savart", 0), r / 1e-7)
        if Bv.shape != ref.shape or r > 1e-7:
            viol("biot_savart_vector_ne_direct_sum", {"rel": r, "units": [lu, cu], "shape": list(Bv.shape)})
        cnt("scalar_vs_vector_checks")
        r = rel(Bz, Bv[:, 2])
        if Bz.shape != (n,) or r > 1e-12:
            viol("scalar_form_ne_vector_z", {"rel": r})
        a_, b_ = float(rng.normal()), float(rng.normal() * 10)
        Bc = np.asarray(biot_savart_2d(ex, ey, ez, current_densities=a_ * J1 + b_ * J2, vector=True, **kw).magnitude)
        B2 = np.asarray(biot_savart_2d(ex, ey, ez, current_densities=J2, vector=True, **kw).magnitude)
        cnt("linearity_checks")
        lin = a_ * Bv + b_ * B2
        r = float(np.max(np.abs(Bc - lin)) / (np.max(np.abs(a_ * Bv)) + np.max(np.abs(b_ * B2)) + 1e-300))
        if r > 1e-11:
            viol("biot_savart_not_linear", {"rel": r})
        # superposition over a split of the sheet
        k = m // 2
        if 0 < k < m:
            kwA = dict(kw, positions=pos[:k], areas=areas[:k]); kwB = dict(kw, positions=pos[k:], areas=areas[k:])
            BA = np.asarray(biot_savart_2d(ex, ey, ez, current_densities=J1[:k], vector=True, **kwA).magnitude)
            BB = np.asarray(biot_savart_2d(ex, ey, ez, current_densities=J1[k:], vector=True, **kwB).magnitude)
            r = float(np.max(np.abs(BA + BB - Bv)) / (np.max(np.abs(BA)) + np.max(np.abs(BB)) + 1e-300))
            cnt("linearity_checks")
            if r > 1e-11:
                viol("biot_savart_not_additive_over_sources", {"rel": r})
        # --- loop
        lu = str(rng.choice(list(LU))); cu = str(rng.choice(list(CU)))
        R = float(10.0 ** rng.uniform(-1, 1.5)); I = float(rng.normal() * 10.0 ** rng.uniform(-1, 2))
        cen = (rng.normal(size=3) * R).tolist()
        npts = 30
        P = np.array(cen)[None, :] + rng.normal(size=(npts, 3)) * R * 10.0 ** rng.uniform(-1, 0.7, (npts, 1))
        # keep away from the wire itself
        rho = np.hypot(P[:, 0] - cen[0], P[:, 1] - cen[1])
        dwire = np.hypot(rho - R, P[:, 2] - cen[2])
        P = P[dwire > 0.05 * R]
        A = current_loop_vector_potential(P, loop_center=cen, loop_radius=R, current=I, length_units=lu, current_units=cu)
        if str(A.units) not in ("meter * tesla", "tesla * meter"):
            viol("loop_units_wrong", {"units": str(A.units)})
        A = np.asarray(A.to("T * m").magnitude)
        ref = em.loop_vector_potential(P * LU[lu], np.array(cen) * LU[lu], R * LU[lu], I * CU[cu])
        cnt("loop_checks")
        r = rel(A, ref); W["loop"] = max(W.get("loop", 0), r / 1e-7)
        if r > 1e-7 or not np.all(np.isfinite(A)):
            viol("loop_potential_ne_quadrature", {"rel": r, "nonfinite": int((~np.isfinite(A)).sum())})
        # near-axis and exactly on-axis: A -> 0
        zs = rng.normal(size=6) * R
        Pax = np.array([[cen[0], cen[1], cen[2] + z] for z in zs])
        Pnear = Pax + np.array([[1e-9 * R, -1e-10 * R, 0]])
        for name, PP in (("on_axis", Pax), ("near_axis", Pnear), ("axis_in_array", np.concatenate([P[:3], Pax[:2]]))):
            with np.errstate(all="ignore"):
                Aa = np.asarray(current_loop_vector_potential(PP, loop_center=cen, loop_radius=R, current=I, length_units=lu, current_units=cu).to("T * m").magnitude)
            refa = em.loop_vector_potential(PP * LU[lu], np.array(cen) * LU[lu], R * LU[lu], I * CU[cu])
            cnt("loop_on_axis_checks")
            scale = units.MU0 * abs(I * CU[cu])  # natural magnitude of A
            if not np.all(np.isfinite(Aa)):
                viol("loop_potential_nonfinite_on_axis", {"where": name, "nan": int(np.isnan(Aa).sum())})
            elif np.max(np.abs(Aa - refa)) > 1e-6 * scale:
                viol("loop_potential_wrong_near_axis", {"where": name, "err": float(np.max(np.abs(Aa - refa))), "scale": scale})
        # small elliptic parameter m = 4 a rho / ((a + rho)^2 + z^2): close to the axis and far from the loop, judged relative to
        # the local magnitude of A (which is far below mu0 I there)
        ncl = 12
        az = rng.uniform(0, 2 * np.pi, ncl)
        rho_c = R * 10.0 ** rng.uniform(-7, -3.3, ncl)
        Pclose = np.stack([cen[0] + rho_c * np.cos(az), cen[1] + rho_c * np.sin(az), cen[2] + rng.normal(size=ncl) * R * 10.0 ** rng.uniform(-2, 0.5, ncl)], axis=1)
        dirs = rng.normal(size=(ncl, 3)); dirs /= np.linalg.norm(dirs, axis=1)[:, None]
        Pfar = np.array(cen)[None, :] + dirs * (R * 10.0 ** rng.uniform(1.9, 4, ncl))[:, None]
        for name, PP in (("close_to_axis", Pclose), ("far_field", Pfar)):
            Aa = np.asarray(current_loop_vector_potential(PP, loop_center=cen, loop_radius=R, current=I, length_units=lu, current_units=cu).to("T * m").magnitude)
            refa = em.loop_vector_potential(PP * LU[lu], np.array(cen) * LU[lu], R * LU[lu], I * CU[cu])
            cnt("loop_small_m_checks")
            scale = units.MU0 * abs(I * CU[cu])
            errp = np.linalg.norm(Aa - refa, axis=1)
            gate = 1e-5 * np.linalg.norm(refa, axis=1) + 1e-14 * scale
            if not np.all(np.isfinite(Aa)) or np.any(errp > gate):
                i = int(np.argmax(errp / gate)) if np.all(np.isfinite(Aa)) else 0
                viol("loop_potential_wrong_at_small_m", {"where": name, "point_rel_to_centre_over_R": ((PP[i] - np.array(cen)) / R).tolist(), "got": Aa[i].tolist(), "expected": refa[i].tolist()})
        # --- convert_field round trips
        for _k in range(4):
            v = rng.normal(size=5) * 10.0 ** rng.uniform(-3, 3)
            bu = str(rng.choice(["mT", "uT", "T", "nT"])); hu = str(rng.choice(["uA/um", "A/m", "mA/mm", "nA/nm", "mA/um", "A/cm", "kA/m", "uA/nm", "nA/mm"]))  # (also units that are NOT numerically A/m)
            cnt("convert_checks")
            Hh = convert_field(v, hu, old_units=bu, with_units=False)
            Bb = convert_field(Hh, bu, old_units=hu, with_units=False)
            if rel(Bb, v) > 1e-12:
                viol("convert_field_round_trip", {"B_units": bu, "H_units": hu, "rel": rel(Bb, v)})
            # absolute, in both directions: H (in hu) -> T equals mu0 * H[A/m]
            HU = {"uA/um": 1.0, "A/m": 1.0, "mA/mm": 1.0, "nA/nm": 1.0, "mA/um": 1e3, "A/cm": 1e2, "kA/m": 1e3, "uA/nm": 1e3, "nA/mm": 1e-6}[hu]
            B_from_H = convert_field(v, "T", old_units=hu, with_units=False)
            if rel(B_from_H, units.MU0 * v * HU) > 1e-8:
                viol("convert_field_H_to_B_wrong", {"H_units": hu, "rel": rel(B_from_H, units.MU0 * v * HU)})
            H_from_B = convert_field(v, hu, old_units="T", with_units=False)
            if rel(H_from_B, v / units.MU0 / HU) > 1e-8:
                viol("convert_field_B_to_H_wrong", {"H_units": hu, "rel": rel(H_from_B, v / units.MU0 / HU)})
            Hsi = convert_field(v, "A/m", old_units=bu, with_units=False)
            Bsi = convert_field(v, "T", old_units=bu, with_units=False)
            if rel(Hsi * units.MU0, Bsi) > 1e-8:
                viol("convert_field_not_mu0", {"rel": rel(Hsi * units.MU0, Bsi)})
            same = convert_field(v, bu, old_units=bu, with_units=False)
            if rel(same, v) > 1e-14:
                viol("convert_field_identity", {})
            q = convert_field(f"{float(v[0])} {bu}", "T", with_units=True)
            if abs(q.magnitude - float(Bsi[0])) > 1e-12 * abs(float(Bsi[0])):
                viol("convert_field_string_form", {})
    need = ["biot_savart_checks", "linearity_checks", "scalar_vs_vector_checks", "loop_checks", "loop_on_axis_checks", "convert_checks"]
    return {"violations": V, "counters": C, "worst": W, "classes": ["L1"], "nontrivial": all(C.get(k, 0) for k in need),
            "sample": {"sets": spec["n"], "worst_over_gate": W}}


def _l2(spec):
    rng = np.random.default_rng(spec["seed"])
    rr = sim.run_sim(spec, [])
    if rr.refused:
        return {"violations": [], "counters": {"refused_mesh": 1}, "classes": ["refused"], "nontrivial": False}
    if rr.exception is not None or rr.solution is None:
        rr.cleanup()
        return {"status": "harness_error", "error": "solve failed: " + repr(rr.exception)[:300]}
    sol = rr.solution
    dev = sol.device
    V, C, W = [], {}, {}

    def viol(kind, detail):
        if len(V) < 8:
            V.append({"kind": kind, "mechanism": kind, "detail": detail})

    lu, cu, fu = dev.length_units, sol.current_units, sol.field_units
    xi = dev.layer.coherence_length
    pts = dev.points
    ext = np.ptp(pts, axis=0).max()
    n = 25
    P = np.stack([rng.uniform(pts[:, 0].min() - 0.3 * ext, pts[:, 0].max() + 0.3 * ext, n),
                  rng.uniform(pts[:, 1].min() - 0.3 * ext, pts[:, 1].max() + 0.3 * ext, n),
                  dev.layer.z0 + rng.choice([-1, 1], n) * rng.uniform(0.05, 1.0, n) * ext], axis=1)
    # the first eight points sit exactly above / below mesh sites (x and y bit-equal to a site's: "the field on the mesh, at height h")
    on_sites = rng.choice(len(pts), size=min(8, len(pts)), replace=False)
    P[: len(on_sites), :2] = pts[on_sites]
    areas_si = dev.mesh.areas * xi**2 * LU[lu] ** 2
    src = np.concatenate([pts, dev.layer.z0 * np.ones((len(pts), 1))], axis=1) * LU[lu]
    FU = {"mT": 1e-3, "uT": 1e-6, "T": 1.0}
    Ks = np.asarray(sol.supercurrent_density.to(f"{cu}/{lu}").magnitude) * CU[cu] / LU[lu]
    Kn = np.asarray(sol.normal_current_density.to(f"{cu}/{lu}").magnitude) * CU[cu] / LU[lu]
    for step in (-1, max(1, sol.data_range[1] // 2)):
        sol.solve_step = step
        Ks = np.asarray(sol.supercurrent_density.to(f"{cu}/{lu}").magnitude) * CU[cu] / LU[lu]
        Kn = np.asarray(sol.normal_current_density.to(f"{cu}/{lu}").magnitude) * CU[cu] / LU[lu]
        for vector in (True, False):
            for units_ in (None, "uT", "A/m"):
                parts = sol.field_at_position(P, vector=vector, units=units_, with_units=False, return_sum=False)
                tot = sol.field_at_position(P, vector=vector, units=units_, with_units=False, return_sum=True)
                C["solution_field_checks"] = C.get("solution_field_checks", 0) + 1
                s = np.asarray(parts.supercurrent) + np.asarray(parts.normal_current)
                if np.max(np.abs(np.asarray(tot) - s)) > 1e-12 * (np.max(np.abs(s)) + 1e-300):
                    viol("field_total_ne_sum_of_parts", {"vector": vector, "units": units_})
                conv = {None: 1.0 / FU[fu], "uT": 1e6, "A/m": 1.0 / units.MU0}[units_]
                for name, K, got in (("supercurrent", Ks, parts.supercurrent), ("normal_current", Kn, parts.normal_current)):
                    ref = em.biot_savart_sheet(P * LU[lu], src, K, areas_si) * conv
                    ref = ref if vector else ref[:, 2]
                    sc = np.max(np.abs(ref)) + 1e-300
                    r = float(np.max(np.abs(np.asarray(got) - ref)) / sc)
                    W["solution_field"] = max(W.get("solution_field", 0), r / 1e-7)
                    if np.asarray(got).shape != ref.shape or r > 1e-7:
                        viol("solution_field_ne_direct_sum", {"part": name, "vector": vector, "units": units_, "rel": r})
        # zs form equals (m,3) form
        alt = sol.field_at_position(P[:, :2], zs=P[:, 2], vector=True, with_units=False)
        if not np.array_equal(np.asarray(alt), np.asarray(sol.field_at_position(P, vector=True, with_units=False))):
            viol("field_zs_form_differs", {})
        for units_ in (None, "T * m", "uT * um"):
            parts = sol.vector_potential_at_position(P, units=units_, with_units=False, return_sum=False)
            tot = sol.vector_potential_at_position(P, units=units_, with_units=False, return_sum=True)
            C["solution_potential_checks"] = C.get("solution_potential_checks", 0) + 1
            s = sum(np.asarray(v) for v in parts.values())
            if set(parts) != {"applied", "supercurrent_density", "normal_current_density"}:
                viol("potential_parts_keys", {"keys": sorted(parts)})
            if np.max(np.abs(np.asarray(tot) - s)) > 1e-12 * (np.max(np.abs(s)) + 1e-300):
                viol("potential_total_ne_sum_of_parts", {"units": units_})
            conv = {None: 1.0 / (FU[fu] * LU[lu]), "T * m": 1.0, "uT * um": 1e12}[units_]
            for name, K in (("supercurrent_density", Ks), ("normal_current_density", Kn)):
                ref = em.vector_potential_sheet(P * LU[lu], src, K, areas_si) * conv
                sc = np.max(np.abs(ref)) + 1e-300
                r = float(np.max(np.abs(np.asarray(parts[name]) - ref)) / sc)
                W["solution_potential"] = max(W.get("solution_potential", 0), r / 1e-7)
                if r > 1e-7:
                    viol("solution_potential_ne_direct_sum", {"part": name, "units": units_, "rel": r})
            # applied part = the user's parameter evaluated at the points (time of the loaded step)
            avp = sol.applied_vector_potential
            kw = {"t": float(sol.times[sol.solve_step])} if avp.time_dependent else {}
            ua = np.asarray(avp(P[:, 0], P[:, 1], P[:, 2], **kw))
            ua = np.concatenate([ua[:, :2], np.zeros((len(ua), 1))], axis=1) if ua.shape[1] == 2 else ua
            ref = ua * (FU[fu] * LU[lu]) * conv
            sc = np.max(np.abs(ref)) + 1e-300
            if np.max(np.abs(np.asarray(parts["applied"]) - ref)) > 1e-9 * sc:
                viol("applied_part_wrong", {"units": units_, "time_dependent": bool(avp.time_dependent)})
    # the sheet current densities are public quantities WITH units: handing the same currents back in other (equivalent) units,
    # or a multiple of them, gives the same / the scaled field and potential
    Ks_q, Kn_q = sol.supercurrent_density, sol.normal_current_density  # (of the step that is loaded)
    f0 = sol.field_at_position(P, vector=True, units="T", with_units=False, return_sum=False)
    a0 = sol.vector_potential_at_position(P, units="T * m", with_units=False, return_sum=False)
    f0s, f0n, a0s = np.array(f0.supercurrent), np.array(f0.normal_current), np.array(a0["supercurrent_density"])
    try:
        for un_ in (f"m{cu[-1]}/{lu}" if cu != "mA" else f"uA/{lu}", "A/m", "A/cm", "uA/nm", "mA/um"):
            sol.supercurrent_density, sol.normal_current_density = Ks_q.to(un_), Kn_q.to(un_)
            C["reexpressed_current_checks"] = C.get("reexpressed_current_checks", 0) + 1
            f1 = sol.field_at_position(P, vector=True, units="T", with_units=False, return_sum=False)
            a1 = sol.vector_potential_at_position(P, units="T * m", with_units=False, return_sum=False)
            for nm_, x0, x1 in (("field/supercurrent", f0s, f1.supercurrent), ("field/normal_current", f0n, f1.normal_current), ("potential/supercurrent", a0s, a1["supercurrent_density"])):
                r_ = float(np.max(np.abs(np.asarray(x1) - x0)) / (np.max(np.abs(x0)) + 1e-300))
                if r_ > 1e-10:
                    viol("result_depends_on_units_of_current_density", {"what": nm_, "units": un_, "rel": r_})
        sol.supercurrent_density, sol.normal_current_density = 2.5 * Ks_q + 0.5 * Kn_q, -1.5 * Kn_q
        C["linearity_by_assignment_checks"] = 1
        f2 = sol.field_at_position(P, vector=True, units="T", with_units=False, return_sum=False)
        for nm_, want_, got_ in (("supercurrent", 2.5 * f0s + 0.5 * f0n, f2.supercurrent), ("normal_current", -1.5 * f0n, f2.normal_current)):
            r_ = float(np.max(np.abs(np.asarray(got_) - want_)) / (np.max(np.abs(want_)) + 1e-300))
            if r_ > 1e-10:
                viol("field_not_linear_in_currents", {"part": nm_, "rel": r_})
    finally:
        sol.supercurrent_density, sol.normal_current_density = Ks_q, Kn_q
    # the same lateral positions at OTHER heights, asked of the same Solution object right afterwards (nothing may be remembered per (x, y))
    P2 = P.copy()
    P2[:, 2] = dev.layer.z0 + (P[:, 2] - dev.layer.z0) * rng.uniform(1.5, 4.0, len(P))
    C["repeated_position_checks"] = C.get("repeated_position_checks", 0) + 2
    parts2 = sol.vector_potential_at_position(P2, units="T * m", with_units=False, return_sum=False)
    for name, K in (("supercurrent_density", Ks), ("normal_current_density", Kn)):
        ref2 = em.vector_potential_sheet(P2 * LU[lu], src, K, areas_si)
        sc2 = np.max(np.abs(ref2)) + 1e-300
        if float(np.max(np.abs(np.asarray(parts2[name]) - ref2)) / sc2) > 1e-7:
            viol("solution_potential_ne_direct_sum", {"part": name, "second_call_same_xy_other_heights": True})
    tot_b = np.asarray(sol.field_at_position(P2, vector=True, units="T", with_units=False))
    ref_b = em.biot_savart_sheet(P2 * LU[lu], src, Ks + Kn, areas_si)
    parts_b = sol.field_at_position(P2, vector=True, units="T", with_units=False, return_sum=False)
    ind_b = np.asarray(parts_b.supercurrent) + np.asarray(parts_b.normal_current)
    if float(np.max(np.abs(ind_b - ref_b)) / (np.max(np.abs(ref_b)) + 1e-300)) > 1e-7:
        viol("solution_field_ne_direct_sum", {"second_call_same_xy_other_heights": True})
    # a vertical line scan (all heights different) in the scalar form
    Pz = np.stack([np.full(7, P[0, 0]), np.full(7, P[0, 1]), dev.layer.z0 + np.linspace(0.3, 2.0, 7) * ext], axis=1)
    bz = sol.field_at_position(Pz, vector=False, units="T", with_units=False, return_sum=False)
    ref_z = em.biot_savart_sheet(Pz * LU[lu], src, Ks + Kn, areas_si)[:, 2]
    got_z = np.asarray(bz.supercurrent) + np.asarray(bz.normal_current)
    if float(np.max(np.abs(got_z - ref_z)) / (np.max(np.abs(ref_z)) + 1e-300)) > 1e-7:
        viol("solution_field_ne_direct_sum", {"vertical_line_scan_scalar_form": True})
    # ONE evaluation point (the docstrings anticipate "something like a list [x, y, z]"): the first row of the many-point answer
    C["single_point_checks"] = C.get("single_point_checks", 0) + 2
    def _induced_A(X):
        # (the applied part of a uniform field is re-centred on the evaluation points - a gauge choice - so it is not comparable
        # between a single point and a set of points; the parts generated by the currents are)
        pr = sol.vector_potential_at_position(X, with_units=False, return_sum=False)
        return np.asarray(pr["supercurrent_density"]) + np.asarray(pr["normal_current_density"])

    for nm_, fn_ in (("vector_potential_at_position", _induced_A),
                     ("field_at_position", lambda X: sol.field_at_position(X, vector=True, with_units=False))):
        many = np.asarray(fn_(P[:3]))
        for form, X1 in (("array_1x3", P[:1]), ("list_xyz", P[0].tolist())):
            try:
                one = np.asarray(fn_(X1))
                if one.reshape(-1).shape != many[0].reshape(-1).shape or np.max(np.abs(one.reshape(-1) - many[0].reshape(-1))) > 1e-12 * (np.max(np.abs(many[0])) + 1e-300):
                    viol("single_point_differs_from_first_of_many", {"function": nm_, "form": form})
            except Exception as exc:  # noqa: BLE001
                viol("single_evaluation_point_raises", {"function": nm_, "form": form, "error": repr(exc)[:160]})
    # evaluation points given as an integer-typed array (e.g. np.array([[0, 0, 2]])): same result as the float-typed array
    ext_i = max(2.0, float(np.ptp(pts[:, 0])))
    Pi = np.stack([rng.integers(-int(ext_i), int(ext_i) + 1, 6), rng.integers(-int(ext_i), int(ext_i) + 1, 6), int(np.ceil(abs(dev.layer.z0))) + rng.integers(1, 4, 6)], axis=1).astype(np.int64)
    Pf = Pi.astype(float)
    C["integer_position_checks"] = C.get("integer_position_checks", 0) + 2
    fa, fb = (np.asarray(sol.field_at_position(X, vector=True, with_units=False)) for X in (Pi, Pf))
    if fa.shape != fb.shape or np.max(np.abs(fa - fb)) > 1e-12 * (np.max(np.abs(fb)) + 1e-300):
        viol("field_depends_on_dtype_of_positions", {"max_abs_diff": float(np.max(np.abs(fa - fb))), "scale": float(np.max(np.abs(fb)))})
    pa, pb = (np.asarray(sol.vector_potential_at_position(X, with_units=False)) for X in (Pi, Pf))
    if pa.shape != pb.shape or np.max(np.abs(pa - pb)) > 1e-12 * (np.max(np.abs(pb)) + 1e-300):
        viol("potential_depends_on_dtype_of_positions", {"max_abs_diff": float(np.max(np.abs(pa - pb))), "scale": float(np.max(np.abs(pb)))})
    # a scalar, non-integer height with integer-typed (m, 2) positions
    z_s = float(dev.layer.z0 + 1.5 * max(1.0, np.ceil(abs(dev.layer.z0))))
    C["integer_position_checks"] += 1
    fa2 = np.asarray(sol.field_at_position(Pi[:, :2], zs=z_s, vector=True, with_units=False))
    fb2 = np.asarray(sol.field_at_position(Pf[:, :2], zs=z_s, vector=True, with_units=False))
    if fa2.shape != fb2.shape or np.max(np.abs(fa2 - fb2)) > 1e-12 * (np.max(np.abs(fb2)) + 1e-300):
        viol("field_depends_on_dtype_of_positions", {"scalar_zs": z_s, "max_abs_diff": float(np.max(np.abs(fa2 - fb2))), "scale": float(np.max(np.abs(fb2)))})
    rr.cleanup()
    return {"violations": V, "counters": C, "worst": W, "classes": ["L2", "units=" + lu + "/" + fu + "/" + cu, "weak_drive=" + str(bool(spec.get("weak")))],
            "nontrivial": C.get("solution_field_checks", 0) > 0 and C.get("solution_potential_checks", 0) > 0,
            "sample": {"sites": int(len(pts)), "points": n, "worst_over_gate": W}}


def run_case(spec):
    return _l1(spec) if spec["layer"] == "L1" else _l2(spec)
