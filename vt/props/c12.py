"""C12 Time steps follow the documented adaptive rule and its bounds.

Reference model over the trace (vt/simmon.py: AdaptiveMonitor): per update, the
attempted steps form d, d*m, d*m^2, ... (one factor per refusal), the accepted step is
the one returned and recorded, positive and <= dt_max (== dt_init when adaptivity is
off); the step proposed for the next update equals min(1/2 (dt + dt_init/delta), dt_max)
after the warm-up window, with delta recomputed by the monitor from psi in/out;
exhausting the retries raises RuntimeError and nothing more is recorded."""
import numpy as np

from .. import runcheck, sim, simmon, zoo
from . import _simcases as S

RULE = (
    "case = one simulation with (dt_init, dt_max, window in {1,2,5,10}, multiplier in {0.1,0.25,0.5,0.9}, retries in {0,1,3,10}) "
    "and a drive strong enough to force refusals, adaptive on or off (also with dt_init == dt_max), terminal values 0 / None / non-zero, with/without screening and thermalisation; "
    "non-trivial = run in which >= 1 refusal/retry or >= 1 change of the proposed step was checked; distinct = distinct spec"
)
REQUIRED_COUNTERS = ["updates_checked", "attempt_sequence_checks", "proposal_rule_checks", "retries_seen", "exhaustions_seen", "proposal_changes", "recorded_dt_checks", "exact_budget_checks"]
CASE_TIMEOUT = {"quick": 600, "thorough": 1500}
ASSUMPTIONS = ["delta is recomputed from the psi passed to and returned by TDGLSolver.update (differences at rounding level tolerated: 1e-8 relative on the proposal)"]


def gen_cases(tier, seed):
    rng = np.random.default_rng(12_000 + seed)
    n = 16 if tier == "quick" else 150
    cases = []
    for k in range(n):
        scr = (k % 8 == 7)
        nt = int(rng.choice([0, 2]))
        dev = zoo.gen_device(rng, n_terminals=nt, n_holes=0, probes=int(rng.choice([0, 2])) if nt else 0, size="tiny" if scr else "small",
                             gamma=float(rng.choice([1.0, 10.0])))
        kind = ["normal", "big_steps", "exhaust", "fixed", "fixed_exhaust", "normal", "big_steps", "normal"][k % 8]
        window = int([1, 2, 5, 10][k % 4])
        mult = float([0.1, 0.25, 0.5, 0.9][(k // 4) % 4])
        retries = int([0, 1, 3, 10][(k // 2) % 4])
        o = dict(adaptive=True, adaptive_window=window, adaptive_time_step_multiplier=mult, max_solve_retries=retries,
                 save_every=int(rng.choice([5, 10])), field_units="mT", current_units="uA", output="file")
        b = 0.3
        if kind == "normal":
            o.update(dt_init=float(rng.choice([1e-3, 1e-2])), dt_max=float(rng.choice([0.05, 0.2])), solve_time=4.0, max_solve_retries=max(retries, 3))
        elif kind == "big_steps":
            o.update(dt_init=float(rng.choice([0.05, 0.1])), dt_max=float(rng.choice([0.5, 2.0])), solve_time=15.0, max_solve_retries=25)
            b = 0.6
        elif kind == "exhaust":
            o.update(dt_init=float(rng.choice([2.0, 5.0])), dt_max=10.0, solve_time=30.0, adaptive_time_step_multiplier=0.9, max_solve_retries=int(rng.choice([0, 1, 3])))
            b = 0.8
        elif kind == "fixed":
            o.update(adaptive=False, dt_init=0.004, dt_max=0.1, solve_time=0.5, auto_dt={"steps": 120, "frac": 0.3})
        elif kind == "fixed_exhaust":
            o.update(adaptive=False, dt_init=3.0, dt_max=5.0, solve_time=30.0)
            b = 0.8
        if kind == "normal" and k % 16 >= 8:
            # dt_init == dt_max with adaptivity on: every refused update must still be retried with the reduced step
            kind = "equal_dt"
            o.update(dt_init=0.4, dt_max=0.4, solve_time=12.0, max_solve_retries=25)
            b = 0.7
        if nt:
            o["terminal_psi"] = [0.0, 0.5, "none", [0.3, 0.4], -0.7, 1.0][(k // 2) % 6]
        if scr:
            o.update(include_screening=True, screening_tolerance=1e-2, max_iterations_per_step=300, solve_time=min(o["solve_time"], 1.5))
            dev["layer"]["lam"], dev["layer"]["d"] = 2.0, 0.1  # moderate screening: several Polyak iterations per step
            if o["adaptive"] and kind in ("normal", "equal_dt"):
                # many steps beyond a short warm-up window, several screening iterations per step
                o.update(adaptive_window=2, screening_tolerance=1e-3, max_iterations_per_step=2000)
                if kind == "normal":
                    o.update(dt_init=2e-3, dt_max=0.5, solve_time=3.0)  # proposals stay below dt_max: the rule itself is exercised
        if k % 5 == 0:
            o["skip_time"] = 0.2 * o["solve_time"]
        drive = {"A": S.field_spec(rng, dev, o, str(rng.choice(["uniform", "ramp"])), b=b),
                 "currents": S.current_spec(rng, dev, o, "const" if nt else "none", strength=0.3)}
        case = {"device": dev, "options": o, "drive": drive, "monitors": ["adaptive"], "kind": kind, "cost": 25 if scr else 6}
        if kind in ("normal", "big_steps", "equal_dt") and not scr:
            # a retried update is THE update for the reduced step: what is answered after r refusals satisfies the documented equation
            # with dt * m^r in every place dt occurs (long-double oracle of C02 on every call, accepted retries counted)
            case["monitors"] = ["adaptive", "step"]
            case["cost"] = 12
        if k % 8 in (0, 6):
            case["history"] = ["used", "used_moved"][(k // 8) % 2]  # the Device object was solved before with other options
        cases.append(case)
    for j in range(2 if tier == "quick" else 8):
        # no inelastic scattering (gamma = 0) and steps far beyond the scheme's stability limit: the update that cannot be evaluated
        # (overflow) is refused like any other, the budget runs out, the run ends with the error - never with non-finite frames
        dev = zoo.gen_device(rng, n_terminals=int([0, 2][j % 2]), n_holes=0, probes=0, size="small", gamma=0.0)
        if j % 2 == 0:
            o = dict(adaptive=False, dt_init=float([3.0, 8.0][(j // 2) % 2]), dt_max=10.0, solve_time=400.0, save_every=5, field_units="mT", current_units="uA", output="file")
        else:
            o = dict(adaptive=True, adaptive_window=2, adaptive_time_step_multiplier=0.9, max_solve_retries=int([1, 3][(j // 2) % 2]), dt_init=4.0, dt_max=10.0, solve_time=400.0,
                     save_every=5, field_units="mT", current_units="uA", output="file")
        drive = {"A": S.field_spec(rng, dev, o, "uniform", b=0.8), "currents": S.current_spec(rng, dev, o, "const" if j % 2 else "none", strength=0.3)}
        cases.append({"device": dev, "options": o, "drive": drive, "monitors": ["adaptive"], "kind": "gamma0_blowup", "max_updates": 3000, "cost": 8})
    for j in range(2 if tier == "quick" else 8):
        # terminals held at a non-zero value, proposals not clipped at dt_max: delta is the change of |psi|^2 of the state that
        # update() RETURNS (terminal sites re-imposed), not of an intermediate
        dev = zoo.gen_device(rng, n_terminals=2, n_holes=0, probes=int([0, 2][j % 2]), size="small", gamma=float([10.0, 1.0][j % 2]))
        o = dict(adaptive=True, adaptive_window=int([5, 2][j % 2]), adaptive_time_step_multiplier=0.25, max_solve_retries=10, dt_init=1e-3, dt_max=0.5, solve_time=6.0,
                 save_every=10, field_units="mT", current_units="uA", output="file", terminal_psi=[0.5, [0.3, 0.4], -0.7, 1.0][j % 4])
        drive = {"A": S.field_spec(rng, dev, o, "uniform", b=0.3), "currents": S.current_spec(rng, dev, o, "const", strength=0.3)}
        cases.append({"device": dev, "options": o, "drive": drive, "monitors": ["adaptive"], "kind": "pinned_nonzero", "cost": 8})
    for j in range(1 if tier == "quick" else 3):
        # a window longer than a thousand steps: delta is the mean over the whole window, however long
        dev = zoo.gen_device(rng, n_terminals=0, n_holes=0, probes=0, size="tiny", gamma=1.0)
        o = dict(adaptive=True, adaptive_window=int([1100, 1500, 2500][j]), adaptive_time_step_multiplier=0.25, max_solve_retries=10, dt_init=1e-3, dt_max=10.0,
                 solve_time=float([1.1, 1.5, 2.5][j]) + 3.0, save_every=200, field_units="mT", current_units="uA", output="file")
        drive = {"A": S.field_spec(rng, dev, o, "uniform", b=0.7)}  # fast initial relaxation: delta ~ 1e-3, proposals far below dt_max
        cases.append({"device": dev, "options": o, "drive": drive, "monitors": ["adaptive"], "kind": "long_window", "cost": 15})
    for j in range(2 if tier == "quick" else 6):
        # continuation from a seed solution whose own run ended with large steps; the new run has its own (tighter) bounds
        dev = zoo.gen_device(rng, n_terminals=int([0, 2][j % 2]), n_holes=0, probes=0, size="small", gamma=float([10.0, 1.0][j % 2]))
        o = dict(adaptive=True, adaptive_window=int([5, 2][j % 2]), adaptive_time_step_multiplier=0.25, max_solve_retries=10, dt_init=1e-4, dt_max=5e-3, solve_time=0.4,
                 save_every=10, field_units="mT", current_units="uA", output="file")
        drive = {"A": S.field_spec(rng, dev, o, "uniform", b=0.2), "currents": S.current_spec(rng, dev, o, "const", strength=0.15)}
        cases.append({"device": dev, "options": o, "drive": drive, "monitors": ["adaptive"], "kind": "seeded", "cost": 8})
    for j in range(2 if tier == "quick" else 6):
        # ONE SolverOptions object: first a fixed-step run, then adaptivity is switched on and the same object is used again
        dev = zoo.gen_device(rng, n_terminals=int([0, 2][j % 2]), n_holes=0, probes=0, size="small", gamma=float([10.0, 1.0][j % 2]))
        o = dict(adaptive=True, adaptive_window=int([5, 2][j % 2]), adaptive_time_step_multiplier=0.25, max_solve_retries=10, dt_init=1e-3, dt_max=0.1, solve_time=3.0,
                 save_every=10, field_units="mT", current_units="uA", output="file")
        drive = {"A": S.field_spec(rng, dev, o, "uniform", b=0.3), "currents": S.current_spec(rng, dev, o, "const", strength=0.2)}
        cases.append({"device": dev, "options": o, "drive": drive, "monitors": ["adaptive"], "kind": "options_reused", "cost": 8})
    for j in range(2 if tier == "quick" else 6):
        # the options of an earlier run, read back from its file (flags and numbers come back as numpy scalars), drive the next run
        dev = zoo.gen_device(rng, n_terminals=int([0, 2][j % 2]), n_holes=0, probes=0, size="small", gamma=float([10.0, 1.0][j % 2]))
        o = dict(adaptive=True, adaptive_window=int([5, 2][j % 2]), adaptive_time_step_multiplier=0.25, max_solve_retries=10, dt_init=1e-3, dt_max=0.1, solve_time=3.0,
                 save_every=10, field_units="mT", current_units="uA", output="file")
        drive = {"A": S.field_spec(rng, dev, o, "uniform", b=0.3), "currents": S.current_spec(rng, dev, o, "const", strength=0.2)}
        cases.append({"device": dev, "options": o, "drive": drive, "monitors": ["adaptive"], "kind": "options_reloaded", "cost": 8})
    for j in range(4 if tier == "quick" else 12):
        # the retry budget is EXACTLY what the worst step needs (it succeeds on the last permitted retry), or one short of it:
        # the first run must go through with the time steps of an unconstrained run, the second must raise
        dev = zoo.gen_device(rng, n_terminals=0, n_holes=0, probes=0, size="small", gamma=float([10.0, 1.0][(j // 2) % 2]))
        o = dict(adaptive=True, adaptive_window=int([1, 3][(j // 2) % 2]), adaptive_time_step_multiplier=float([0.5, 0.25, 0.7][(j // 2) % 3]), max_solve_retries=60,
                 dt_init=float([0.1, 0.05][(j // 2) % 2]), dt_max=float([2.0, 1.0][(j // 2) % 2]), solve_time=10.0, save_every=10, field_units="mT", current_units="uA", output="file")
        drive = {"A": S.field_spec(rng, dev, o, "uniform", b=0.6)}
        if j % 2:
            import copy

            cases.append(dict(copy.deepcopy(cases[-1]), budget_offset=-2))  # the same problem, one retry fewer
        else:
            cases.append({"device": dev, "options": o, "drive": drive, "monitors": ["adaptive"], "kind": "exact_budget", "budget_offset": -1, "cost": 12})
    return cases


def run_case(spec):
    tm = simmon.TraceMonitor()

    def post(out):
        rr = out["rr"]
        mon = out["mons"]["adaptive"]
        C = out["counters"]
        C.setdefault("recorded_dt_checks", 0)
        exc = rr.exception
        ups = [u for st in tm.stages for u in st["updates"]]
        if getattr(mon, "exhaustions", 0):
            # update() gave up (retries exhausted / refused fixed step): the caller of solve() must see that error
            C["exhaustion_propagation_checks"] = C.get("exhaustion_propagation_checks", 0) + 1
            if not (isinstance(exc, RuntimeError) and "failed to converge" in str(exc)):
                out["violations"].append({"kind": "exhaustion_not_raised_to_caller", "mechanism": "exhaustion_error_swallowed",
                                          "detail": {"solve_raised": repr(exc)[:200], "returned": type(rr.solution).__name__}})
        if exc is not None:
            if isinstance(exc, RuntimeError) and "failed to converge" in str(exc) and "Screening" not in str(exc):
                # nothing further may be recorded after the failing update
                if ups and not ups[-1].get("failed"):
                    out["violations"].append({"kind": "step_recorded_after_exhaustion", "mechanism": "continued_after_exhaustion", "detail": {"updates": len(ups)}})
            elif isinstance(exc, RuntimeError) and "Screening" in str(exc):
                C["screening_nonconvergence"] = 1
            else:
                out["status"] = "harness_error"
                out["error"] = "unexpected exception: " + repr(exc)[:300]
                return
        # the dt written to running_state/dt is the dt returned by update
        sol = rr.solution
        if sol is not None and sol.dynamics is not None:
            sims = [s for s in tm.stages if s["name"] == "Simulating"]
            used = [u["dt"] for u in sims[0]["updates"] if not u.get("failed")] if sims else []
            rec = [float(x) for x in np.asarray(sol.dynamics.dt)]
            C["recorded_dt_checks"] += len(rec)
            if rec != used[: len(rec)] or len(rec) != len(used):
                out["violations"].append({"kind": "recorded_dt_ne_used_dt", "mechanism": "recorded_dt_ne_used_dt", "detail": {"n_recorded": len(rec), "n_used": len(used)}})
            o = rr.options
            dmax = o.dt_max if o.adaptive else o.dt_init
            if rec and (min(rec) <= 0 or max(rec) > dmax * (1 + 1e-15)):
                out["violations"].append({"kind": "recorded_dt_out_of_bounds", "mechanism": "dt_above_max", "detail": {"min": min(rec), "max": max(rec), "dt_max": dmax}})
        for k in ("retries_seen", "exhaustions_seen", "proposal_changes", "proposal_rule_checks", "proposal_at_dt_max"):
            C.setdefault(k, 0)

    run_kwargs = {}
    pre_violations = []
    if spec["kind"] == "options_reused":
        import dataclasses

        device, why = zoo.try_build_device(spec["device"])
        if device is None:
            return {"violations": [], "counters": {"refused_mesh": 1}, "classes": ["refused"], "nontrivial": False}
        want = dict(spec["options"])
        first = dict(want, adaptive=False, solve_time=20 * want["dt_init"])
        opts = sim.build_options(first, output_file=None)
        before = dataclasses.asdict(opts)
        r0 = sim.run_sim(dict(spec, options=first), [], device=device, options_obj=opts)
        if r0.refused:
            return {"violations": [], "counters": {"refused_mesh": 1}, "classes": ["refused"], "nontrivial": False}
        r0.cleanup()
        after = dataclasses.asdict(opts)
        changed = [k for k in before if k not in ("output_file", "progress_interval", "pause_on_interrupt") and before[k] != after[k]]
        if changed:
            pre_violations.append({"kind": "solve_changes_callers_options", "mechanism": "solve_changes_callers_options",
                                   "detail": {"fields": changed, "before": {k: before[k] for k in changed}, "after": {k: after[k] for k in changed}}})
        opts.adaptive = True
        opts.solve_time = want["solve_time"]
        run_kwargs = dict(device=device, options_obj=opts)
    if spec["kind"] == "options_reloaded":
        import tdgl

        device, why = zoo.try_build_device(spec["device"])
        if device is None:
            return {"violations": [], "counters": {"refused_mesh": 1}, "classes": ["refused"], "nontrivial": False}
        r0 = sim.run_sim(dict(spec, options=dict(spec["options"], solve_time=0.2)), [], device=device, keep_dir=True)
        if r0.refused or r0.exception is not None or r0.solution is None:
            return {"violations": [], "counters": {"refused_mesh": 1}, "classes": ["refused"], "nontrivial": False}
        opts = tdgl.Solution.from_hdf5(r0.solution.path).options
        opts.solve_time = spec["options"]["solve_time"]
        r0.cleanup = lambda: None
        import shutil

        shutil.rmtree(r0.outdir, ignore_errors=True)
        run_kwargs = dict(device=device, options_obj=opts)
    if spec["kind"] == "seeded":
        device, why = zoo.try_build_device(spec["device"])
        if device is None:
            return {"violations": [], "counters": {"refused_mesh": 1}, "classes": ["refused"], "nontrivial": False}
        first = dict(spec, options=dict(spec["options"], dt_init=1e-3, dt_max=0.1, solve_time=3.0))
        r0 = sim.run_sim(first, [], device=device, keep_dir=True)
        if r0.refused or r0.exception is not None or r0.solution is None:
            return {"violations": [], "counters": {"refused_mesh": 1}, "classes": ["refused"], "nontrivial": False}
        run_kwargs = dict(device=device, seed_solution=r0.solution)
    probe = None
    if spec["kind"] == "exact_budget":
        device, why = zoo.try_build_device(spec["device"])
        if device is None:
            return {"violations": [], "counters": {"refused_mesh": 1}, "classes": ["refused"], "nontrivial": False}
        R, dts = S.probe_retry_depth(spec, device)
        if R is None or R + spec["budget_offset"] < 0:
            return {"violations": [], "counters": {"exact_budget_premise_not_met": 1}, "classes": ["kind=exact_budget", "premise_not_met"], "nontrivial": False}
        spec = dict(spec, options=dict(spec["options"], max_solve_retries=R + spec["budget_offset"]))
        probe = (R, dts)
        run_kwargs = dict(device=device)
    out = S.run_sim_case(spec, "C12", extra_listeners=[tm], post=post, **run_kwargs)
    if probe is not None and "violations" in out and out.get("status") != "harness_error":
        R, dts = probe
        C = out["counters"]
        C["exact_budget_checks"] = 1
        sims = [s_ for s_ in tm.stages if s_["name"] == "Simulating"]
        used = [u["dt"] for u in sims[0]["updates"] if not u.get("failed")] if sims else []
        exc_txt = out["sample"].get("exception")
        if spec["budget_offset"] == -1:
            # max_solve_retries = R - 1: the worst step is answered on the last permitted retry; the run is the unconstrained run
            if exc_txt is not None or used != dts:
                out["violations"].append({"kind": "budget_exactly_sufficient_but_failed", "mechanism": "gave_up_before_retry_budget",
                                          "detail": {"worst_step_needs_refusals": R, "max_solve_retries": R - 1, "exception": exc_txt, "steps_done": len(used), "steps_unconstrained": len(dts)}})
        else:
            # max_solve_retries = R - 2: the worst step cannot be answered within the budget; the run must raise there
            if exc_txt is None or "converge" not in exc_txt:
                out["violations"].append({"kind": "budget_insufficient_but_continued", "mechanism": "retry_limit_not_enforced",
                                          "detail": {"worst_step_needs_refusals": R, "max_solve_retries": R - 2, "exception": exc_txt, "steps_done": len(used)}})
    if pre_violations and "violations" in out:
        out["violations"] = pre_violations + out["violations"]
        out.setdefault("counters", {})["options_reuse_checks"] = 1
    elif run_kwargs and "counters" in out:
        out["counters"]["options_reuse_checks"] = 1
    if out.get("status") == "harness_error":
        return out
    C = out["counters"]
    out["classes"] = ["kind=" + spec["kind"], f"window={spec['options'].get('adaptive_window')}", f"mult={spec['options'].get('adaptive_time_step_multiplier')}",
                      f"retries={spec['options'].get('max_solve_retries')}", "screening=" + str(bool(spec["options"].get("include_screening"))),
                      "therm=" + str(bool(spec["options"].get("skip_time"))),
                      "saw_retries" if C.get("retries_seen") else "no_retries", "saw_exhaustion" if C.get("exhaustions_seen") else "no_exhaustion",
                      "reached_dt_max" if C.get("proposal_at_dt_max") else "below_dt_max"]
    out["nontrivial"] = bool(C.get("retries_seen", 0) or C.get("proposal_changes", 0) or C.get("exhaustions_seen", 0))
    return out
