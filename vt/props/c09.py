"""C09 Simulations are deterministic and reproducible bit for bit.

Differential execution across schedules: the same case is run in FRESH processes under
different NUMBA_NUM_THREADS (1..16), BLAS thread counts, PYTHONHASHSEED values, output
locations and working directories, several times each; sha256 digests of every mesh
array, every state returned by update, every recorded dataset / attribute (timestamps
excluded), the dt sequence and the per-step records must coincide across all runs of a
case. In-process: the NaN-poisoned kernel output buffer must be fully overwritten, and
numpy's global RNG state must be unchanged by a solve. The digest set includes what
tdgl.solve() hands back (the returned Solution's fields, dt and times), so a result
read from the wrong file is seen. History: the same seeded run is repeated in one process
from one in-memory seed object and from a re-loaded copy of it."""
import hashlib
import os

import numpy as np

from .. import runcheck, sim, simmon, zoo
from . import _simcases as S

RULE = (
    "configuration = one simulation input (no screening + adaptive, screening, time-dependent drive + callable currents, "
    "epsilon callable, fixed step with holes, callable currents with a pulse covering 0.67 % of the run, live monitor requested with a wall-clock refresh "
    "interval far shorter than the run [the plotting process itself is not started]); each configuration is executed in fresh processes under 8 (quick) / ~40 (thorough) "
    "environments: NUMBA_NUM_THREADS in 1..16, OMP/OPENBLAS threads 1/4, PYTHONHASHSEED 0/1/random, output file / temp dir / "
    "output file name already occupied by an earlier different run / other cwd, repeated. In-process seed_reuse case = the same seeded "
    "simulation run twice from one in-memory seed Solution and once from the seed re-loaded from its file (all digests equal, seed untouched). In-process history case = simulation X on a Device that was solved before with other options "
    "(and optionally moved in place) vs X on a freshly built Device moved the same way. In-process param_reuse case = a thermalised run driven by ONE caller-held time-dependent Parameter object: first use, after '2 * field' was written, "
    "after 'field + field' was evaluated, and with a freshly made equal object. case = (configuration, environment); non-trivial = run completed with >= 10 updates and digests produced; "
    "distinct = distinct (configuration, environment); the verdict compares all digests of a configuration"
)
REQUIRED_COUNTERS = ["process_runs", "digest_comparisons", "kernel_buffer_checks", "rng_state_checks", "seed_reuse_comparisons", "history_comparisons"]
CASE_TIMEOUT = {"quick": 600, "thorough": 1200}
ASSUMPTIONS = ["one machine, one numba/LLVM build; races are observed only as differing results across thread counts and repetitions"]


def _configs(tier, seed):
    rng = np.random.default_rng(9_000 + seed)
    cfgs = []
    kinds = ["screening", "plain_adaptive", "four_terminals_callable", "screening_from_zero", "timedep_callable", "epsilon_callable", "fixed_holes"]
    if tier == "quick":
        kinds = kinds[:4]
    # blip_callable: callable currents that are constant except for a pulse covering 0.67 % of the run (anything the library
    # learns about the callable by SAMPLING it sees the pulse in about every second process);
    # monitor_on: the live monitor requested with a refresh interval (wall-clock seconds) much shorter than the run
    # decay_strict: a film driven normal (epsilon = -40: |psi| falls through the whole floating-point range, underflow included)
    kinds = kinds + ["blip_callable", "monitor_on", "decay_strict"]
    for name in kinds:
        scr = name in ("screening", "screening_from_zero")
        nt = 2 if name in ("timedep_callable", "plain_adaptive", "blip_callable", "monitor_on") else (4 if name == "four_terminals_callable" else 0)
        # (blip_callable: two holes - the mesher is handed a LIST of holes, whose order is part of the input)
        dev = zoo.gen_device(rng, n_terminals=nt, n_holes=1 if name == "fixed_holes" else (2 if name == "blip_callable" else 0), probes=2 if nt else 0,
                             size=("tiny" if name == "decay_strict" else "small") if not scr else "medium", smooth=int(rng.choice([0, 5])))
        if scr:
            dev["layer"]["lam"], dev["layer"]["d"] = 2.0, 0.1
        o = S.base_options(rng, adaptive=name != "fixed_holes", steps=25 if scr else 80, screening=scr)
        if scr:
            o.update(max_iterations_per_step=3000, dt_max=0.02, solve_time=0.25)
        if name == "blip_callable":
            o = S.base_options(rng, adaptive=False, steps=300)
        if name == "monitor_on":
            o.update(monitor=True, monitor_update_interval=0.004, save_every=10**6)
        if name == "decay_strict":
            dev["layer"]["gamma"], dev["layer"]["u"] = 1.0, 1.0  # (|psi| ~ exp(-40 t): 1e-200 and below before the end of the run)
            o = dict(solve_time=12.0, dt_init=1e-3, dt_max=0.02, adaptive=True, save_every=200, field_units="mT", current_units="uA", output="file")
        drive = {"A": S.field_spec(rng, dev, o, "ramp" if name in ("timedep_callable", "screening_from_zero") else "uniform", b=0.3),
                 "currents": S.current_spec(rng, dev, o, {"timedep_callable": "callable", "four_terminals_callable": "callable", "plain_adaptive": "const", "blip_callable": "blip", "monitor_on": "const"}.get(name, "none"), strength=0.2),
                 "epsilon": {"kind": "spatial_novec" if name == "epsilon_callable" else ("time" if name == "plain_adaptive" else "one")}}  # (plain_adaptive: epsilon(r, t))
        if name == "decay_strict":
            drive = {"A": {"kind": "zero"}, "epsilon": {"kind": "const", "value": -40.0}}
        cfgs.append({"name": name, "device": dev, "options": o, "drive": drive})
    return cfgs


def gen_cases(tier, seed):
    cases = []
    for cfg in _configs(tier, seed):
        envs = []
        if tier == "quick":
            threads = [1, 2, 3, 4, 7, 16, 16, 1]
        else:
            threads = list(range(1, 17)) * 2 + [16, 8, 5, 1]
        for i, t in enumerate(threads):
            envs.append({"NUMBA_NUM_THREADS": t, "OMP_NUM_THREADS": [1, 4][i % 2], "OPENBLAS_NUM_THREADS": [1, 4][i % 2],
                         "PYTHONHASHSEED": ["0", "1", "random"][i % 3]})
        for i, e in enumerate(envs):
            cases.append({"config": cfg["name"], "device": cfg["device"], "options": dict(cfg["options"], output=["file", "temp", "file", "occupied"][i % 4]), "drive": cfg["drive"],
                          "env": e, "cwd_mode": ["outdir", "other"][i % 2], "rep": i, "cost": 10, "timeout": 600,
                          "np_seterr": None})  # (a caller-set numpy error policy is NOT varied: the unchanged tree itself depends on it, see DESIGN 7)
    for cfg in _configs(tier, seed):
        if cfg["name"] in ("screening", "plain_adaptive", "timedep_callable"):
            cases.append({"layer": "seed_reuse", "config": cfg["name"], "device": cfg["device"], "options": dict(cfg["options"], output="file"), "drive": cfg["drive"], "cost": 30, "timeout": 900})
    nh = 4 if tier == "quick" else 12
    rngh = np.random.default_rng(9_500 + seed)
    for k in range(nh):
        # in-process histories: the Device object has been solved (and possibly moved in place) before
        dev = zoo.gen_device(rngh, n_terminals=[2, 3][k % 2], n_holes=0, probes=0, size="small", smooth=0, angle=float(rngh.uniform(8, 40)))
        o = S.base_options(rngh, adaptive=bool(k % 2), steps=40)
        o["terminal_psi"] = ["none", 0.5][(k // 2) % 2]
        drive = {"A": S.field_spec(rngh, dev, o, "uniform", b=0.25), "currents": S.current_spec(rngh, dev, o, "const", strength=0.2)}
        ang = float(rngh.uniform(0, 2 * np.pi))
        if k % 4 == 3:
            drive["A"] = S.field_spec(rngh, dev, o, "loop", b=0.25)  # a source that depends on z: the film's height matters
        cases.append({"layer": "history", "config": f"history{k}", "between": "dz_copy" if k % 4 == 3 else None, "device": dev, "options": dict(o, output="file"), "drive": drive, "reuse_options": bool(o["adaptive"]), "layer_sweep": bool(k % 4 in (1, 2)),
                      "translate": [[0.37, 3.1, 41.7][(k // 2) % 3] * np.cos(ang), [0.37, 3.1, 41.7][(k // 2) % 3] * np.sin(ang)] if k % 2 == 0 else None, "cost": 20, "timeout": 900})
    for k in range(3 if tier == "quick" else 10):
        # meshing is part of the simulation: the same Device meshed again with the same arguments gives the same mesh bit for bit, equal to
        # that of an identically built Device, and meshing leaves the outlines it was given alone (devices away from the origin included)
        dev = zoo.gen_device(rngh, n_terminals=[0, 2, 3][k % 3], n_holes=[1, 0, 2][k % 3] if k % 3 != 1 else 0, probes=0, size="small", smooth=[0, 5][k % 2],
                             film_kind=[None, "box", "box"][k % 3])
        xi_ = dev["layer"]["xi"]
        dev["offset"] = [[0.0, 0.0], [7.3 * xi_, -4.1 * xi_], [-55.0 * xi_, 31.0 * xi_]][k % 3]
        cases.append({"layer": "mesh_repeat", "config": f"mesh_repeat{k}", "device": dev, "cost": 5, "timeout": 300})
    for k in range(2 if tier == "quick" else 6):
        # a time-dependent vector potential given as ONE plain Parameter object that the caller keeps: run, mention the object in an
        # expression that is never used (2 * field), run again with it; a thermalised run evaluates the same times twice
        dev = zoo.gen_device(rngh, n_terminals=[0, 2][k % 2], n_holes=0, probes=0, size="small", smooth=0)
        o = S.base_options(rngh, adaptive=False, steps=40)
        o["auto_dt"] = dict(o["auto_dt"], therm_steps=[7, 12, 20][k % 3])
        drive = {"A": {"kind": "osc_plain", "B": S.field_spec(rngh, dev, o, "uniform", b=0.3)["B"], "w": 2 * np.pi / (0.7 * o["solve_time"])},
                 "currents": S.current_spec(rngh, dev, o, "const" if k % 2 else "none", strength=0.15)}
        cases.append({"layer": "param_reuse", "config": f"param_reuse{k}", "device": dev, "options": dict(o, output="file"), "drive": drive, "cost": 20, "timeout": 900})
    return cases


def _dig(h, *parts):
    for p in parts:
        if isinstance(p, np.ndarray):
            a = np.ascontiguousarray(p)
            h.update(str(a.dtype).encode() + str(a.shape).encode() + a.tobytes())
        else:
            h.update(repr(p).encode())


def _digests(rr, tm):
    digests = {}
    mesh = rr.device.mesh
    h = hashlib.sha256()
    for name in ("sites", "elements", "boundary_indices", "areas", "dual_sites"):
        _dig(h, name, getattr(mesh, name))
    for name in ("centers", "edges", "boundary_edge_indices", "directions", "edge_lengths", "dual_edge_lengths"):
        _dig(h, name, getattr(mesh.edge_mesh, name))
    digests["mesh"] = h.hexdigest()
    ups = [u for st in tm.stages for u in st["updates"]]
    h = hashlib.sha256()
    for u in ups:
        _dig(h, u.get("hashes"), u.get("dt"), u.get("screen_iters"), u.get("probe_mu"), u.get("probe_theta"))
    digests["update_states"] = h.hexdigest()
    digests["dt_sequence"] = hashlib.sha256(repr([u.get("dt") for u in ups]).encode()).hexdigest()
    exc = rr.exception
    digests["outcome"] = "ok" if exc is None else type(exc).__name__ + ":" + str(exc)[:80]
    frames = None
    if rr.output_path and os.path.exists(rr.output_path):
        frames = runcheck.read_frames(rr.output_path)[0]
    elif tm.snapshot is not None:
        frames = tm.snapshot[0]
    if frames is not None:
        h = hashlib.sha256()
        for fr in frames:
            _dig(h, fr["number"], sorted((k, v) for k, v in fr["attrs"].items() if k != "timestamp"), sorted(fr["hashes"].items()))
            if fr["running"] is not None:
                for k in sorted(fr["running"]):
                    _dig(h, k, fr["running"][k])
        digests["recorded_frames"] = h.hexdigest()
    sol = rr.solution
    if sol is not None:
        # what tdgl.solve() handed back to the caller
        h = hashlib.sha256()
        td = sol.tdgl_data
        for f in ("psi", "mu", "applied_vector_potential", "induced_vector_potential", "supercurrent", "normal_current", "epsilon"):
            _dig(h, f, np.asarray(getattr(td, f)))
        dyn = sol.dynamics
        _dig(h, "step", int(sol.solve_step), "dt", None if dyn is None else np.asarray(dyn.dt), "time", None if dyn is None else np.asarray(dyn.time), "times", np.asarray(sol.times))
        digests["returned_solution"] = h.hexdigest()
    return digests, ups


def run_case(spec):
    if spec.get("layer") == "seed_reuse":
        return _run_seed_reuse(spec)
    if spec.get("layer") == "history":
        return _run_history(spec)
    if spec.get("layer") == "param_reuse":
        return _run_param_reuse(spec)
    if spec.get("layer") == "mesh_repeat":
        return _run_mesh_repeat(spec)
    import numba

    numba_threads = int(numba.get_num_threads())
    if numba_threads != int(spec["env"]["NUMBA_NUM_THREADS"]):
        return {"status": "harness_error", "error": f"numba threads {numba_threads} != requested {spec['env']['NUMBA_NUM_THREADS']}"}
    tm = simmon.TraceMonitor()
    sn = simmon.Sanitizer()
    state0 = np.random.get_state()
    cwd = os.getcwd()
    if spec["cwd_mode"] == "other":
        os.chdir("/")
    workdir = None
    if spec["options"].get("output") == "occupied":
        # the requested output file already exists (result of an earlier, different simulation)
        import copy
        import tempfile

        workdir = tempfile.mkdtemp(prefix="vt_c09_")
        other = copy.deepcopy(spec)
        other["options"]["output"] = "file"
        other["options"]["solve_time"] = 0.5 * other["options"]["solve_time"]
        if "auto_dt" in other["options"]:
            other["options"]["auto_dt"] = dict(other["options"]["auto_dt"], steps=max(3, other["options"]["auto_dt"]["steps"] // 2))
        other["drive"] = {"A": {"kind": "zero"}}
        r0 = sim.run_sim(other, [], workdir=workdir, keep_dir=True)
        if r0.refused:
            return {"violations": [], "counters": {"refused_mesh": 1}, "classes": ["refused"], "nontrivial": False, "config": spec["config"]}
        if r0.exception is not None:
            return {"status": "harness_error", "error": "occupying run failed: " + repr(r0.exception)[:200]}
        spec = dict(spec, options=dict(spec["options"], output="file"))
    old_err = None
    if spec.get("np_seterr"):
        old_err = np.seterr(all=spec["np_seterr"])  # the calling process's own numpy error policy
    try:
        rr = sim.run_sim(spec, [tm, sn], keep_dir=True, workdir=workdir)
    finally:
        if old_err is not None:
            np.seterr(**old_err)
        os.chdir(cwd)
    if rr.refused:
        return {"violations": [], "counters": {"refused_mesh": 1}, "classes": ["refused"], "nontrivial": False, "config": spec["config"]}
    state1 = np.random.get_state()
    V = list(sn.V)
    C = dict(sn.C)
    for m_ in getattr(rr, "mutated", []):
        # (a repeated run with the same objects would then differ from this one)
        V.append({"kind": "solve_changes_callers_inputs", "mechanism": "solve_changes_callers_inputs", "detail": m_})
    C["process_runs"] = 1
    C["rng_state_checks"] = 1
    if not (state0[0] == state1[0] and np.array_equal(state0[1], state1[1]) and state0[2:] == state1[2:]):
        V.append({"kind": "global_rng_state_changed", "mechanism": "global_rng_state_changed", "detail": {"config": spec["config"]}})
    digests, ups = _digests(rr, tm)
    import shutil

    shutil.rmtree(rr.outdir, ignore_errors=True)
    return {"violations": V, "counters": C, "classes": ["config=" + spec["config"], f"threads={spec['env']['NUMBA_NUM_THREADS']}", "hashseed=" + spec["env"]["PYTHONHASHSEED"],
                                                      "output=" + ("occupied" if workdir else spec["options"]["output"]), "cwd=" + spec["cwd_mode"], "np_seterr=" + str(spec.get("np_seterr"))],
            "nontrivial": len(ups) >= 10, "config": spec["config"], "digests": digests, "env": spec["env"], "rep": spec["rep"],
            "key": f"{spec['config']}|{spec['rep']}",
            "sample": {"config": spec["config"], "env": spec["env"], "updates": len(ups), "digests": {k: v[:16] for k, v in digests.items()}}}


def _run_mesh_repeat(spec):
    dev, why = zoo.try_build_device(spec["device"])
    if dev is None:
        return {"violations": [], "counters": {"refused_mesh": 1}, "classes": ["refused"], "nontrivial": False, "config": spec["config"]}
    twin, _ = zoo.try_build_device(spec["device"])
    V, C = [], {"mesh_repeat_checks": 0}
    m_ = spec["device"].get("mesh", {})

    def snap(d):
        em = d.mesh.edge_mesh
        return {"sites": simmon.h(d.mesh.sites), "elements": simmon.h(d.mesh.elements), "areas": simmon.h(d.mesh.areas), "edges": simmon.h(em.edges),
                "dual_edge_lengths": simmon.h(em.dual_edge_lengths), "boundary_indices": simmon.h(d.mesh.boundary_indices)}

    def outlines(d):
        return {p.name: np.array(p.points, copy=True) for p in [d.film] + list(d.holes) + list(d.terminals)}

    first, out0 = snap(dev), outlines(dev)
    if twin is not None:
        C["mesh_repeat_checks"] += 1
        other = snap(twin)
        bad = [k for k in first if first[k] != other[k]]
        if bad:
            V.append({"kind": "identically_built_devices_mesh_differently", "mechanism": "mesh_not_reproducible", "detail": {"arrays": bad}})
    for rep in range(2):
        dev.make_mesh(max_edge_length=m_.get("max_edge_length"), min_points=m_.get("min_points"), smooth=m_.get("smooth", 0))
        C["mesh_repeat_checks"] += 1
        again = snap(dev)
        bad = [k for k in first if first[k] != again[k]]
        if bad:
            V.append({"kind": "same_device_meshed_again_differs", "mechanism": "mesh_not_reproducible",
                      "detail": {"repeat": rep + 1, "arrays": bad, "sites_first": int(len(twin.mesh.sites)) if twin is not None else None, "sites_now": int(len(dev.mesh.sites))}})
            break
    out1 = outlines(dev)
    C["outline_immutability_checks"] = len(out0)
    moved = [n for n in out0 if out0[n].shape != out1[n].shape or not np.array_equal(out0[n], out1[n])]
    if moved:
        V.append({"kind": "make_mesh_changes_callers_outlines", "mechanism": "solve_changes_callers_inputs",
                  "detail": {"polygons": moved, "max_abs_change": {n: float(np.max(np.abs(out0[n] - out1[n]))) for n in moved if out0[n].shape == out1[n].shape}}})
    return {"violations": V, "counters": C, "classes": ["layer=mesh_repeat", "offset=" + str(bool(any(spec["device"].get("offset", [0, 0]))))], "nontrivial": True,
            "config": spec["config"], "key": spec["config"], "sample": {"config": spec["config"], "sites": int(len(dev.mesh.sites)), "digest": first["sites"][:16]}}


def _run_seed_reuse(spec):
    """In one process: the same in-memory seed Solution starts the same simulation twice, and a
    copy of the seed re-loaded from its file starts it a third time; all three must coincide
    and the seed itself must be left as it was."""
    import copy
    import shutil

    from tdgl import Solution

    dev, why = zoo.try_build_device(spec["device"])
    if dev is None:
        return {"violations": [], "counters": {"refused_mesh": 1}, "classes": ["refused"], "nontrivial": False}
    s0 = copy.deepcopy(spec)
    s0["options"].update(include_screening=False, output="file")
    r0 = sim.run_sim(s0, [], device=dev, keep_dir=True)
    if r0.refused:
        return {"violations": [], "counters": {"refused_mesh": 1}, "classes": ["refused"], "nontrivial": False}
    if r0.exception is not None or r0.solution is None:
        return {"status": "harness_error", "error": "seed run failed: " + repr(r0.exception)[:200]}
    seed = r0.solution
    fields = ("psi", "mu", "applied_vector_potential", "induced_vector_potential", "supercurrent", "normal_current", "epsilon")

    def seed_hashes(sol):
        return {f: hashlib.sha256(np.ascontiguousarray(getattr(sol.tdgl_data, f)).tobytes()).hexdigest() for f in fields}

    before = seed_hashes(seed)
    V, C = [], {"process_runs": 0, "seed_reuse_comparisons": 0, "seed_immutability_checks": 0}
    runs = []
    dirs = [r0.outdir]
    for label in ("first", "second_same_object", "reloaded_from_file"):
        sd = seed if label != "reloaded_from_file" else Solution.from_hdf5(seed.path)
        tm = simmon.TraceMonitor()
        rr = sim.run_sim(spec, [tm], device=dev, seed_solution=sd, keep_dir=True)
        dirs.append(rr.outdir)
        if rr.refused:
            break
        d, ups = _digests(rr, tm)
        d.pop("mesh", None)
        runs.append((label, d, len(ups)))
        C["process_runs"] += 1
        C["seed_immutability_checks"] += 1
        after = seed_hashes(seed)
        if after != before:
            V.append({"kind": "seed_solution_mutated_by_run", "mechanism": "seed_solution_mutated", "detail": {"after": label, "fields": [f for f in fields if before[f] != after[f]]}})
            before = after
    for label, d, n in runs[1:]:
        C["seed_reuse_comparisons"] += 1
        for k in sorted(d):
            if d[k] != runs[0][1].get(k):
                V.append({"kind": "repeat_with_same_seed_differs", "mechanism": "nondeterministic_" + k, "detail": {"run": label, "what": k, "updates": [runs[0][2], n]}})
                break
    for dd in dirs:
        shutil.rmtree(dd, ignore_errors=True)
    return {"violations": V, "counters": C, "classes": ["seed_reuse", "config=" + spec["config"]], "nontrivial": len(runs) == 3 and min(r[2] for r in runs) >= 10,
            "sample": {"config": spec["config"], "runs": [(l, n, d.get("update_states", "")[:16]) for l, d, n in runs]}}


def _run_history(spec):
    """X after Y on one Device object (optionally moved in place in between) must give exactly what X gives on a Device
    built afresh (and moved the same way) that has never been solved."""
    import copy
    import shutil

    def build():
        d, why = zoo.try_build_device(spec["device"])
        return d

    def move(d):
        if spec.get("translate"):
            size = float(np.ptp(np.asarray(d.film.points), axis=0).max())
            d.translate(size * spec["translate"][0], size * spec["translate"][1], inplace=True)

    used = build()
    if used is None:
        return {"violations": [], "counters": {"refused_mesh": 1}, "classes": ["refused"], "nontrivial": False}
    y = copy.deepcopy(spec)
    y["options"].update(terminal_psi=0.0)
    y["drive"] = {"A": {"kind": "zero"}, "currents": spec["drive"]["currents"]}
    opts_obj = None
    if spec.get("reuse_options"):
        # ONE SolverOptions object: the earlier run used it with adaptive=False; the user then flips adaptive on and runs again
        y = copy.deepcopy(spec)
        y["options"].update(adaptive=False, solve_time=30 * spec["options"]["dt_init"], terminal_psi=0.0)
        y["options"].pop("auto_dt", None)
        opts_obj = sim.build_options(y["options"], output_file=None)
    layer_keep = None
    if spec.get("layer_sweep"):
        # a sweep over material parameters on ONE Device object: the earlier run saw other values, set back before X
        Ly = used.layer
        layer_keep = (Ly.london_lambda, Ly.thickness)
        Ly.london_lambda, Ly.thickness = 1.7 * layer_keep[0], 0.6 * layer_keep[1]
        _ = (used.K0, used.A0, used.Bc2)  # (the user looked at the scales of that material)
    r0 = sim.run_sim(y, [], device=used, options_obj=opts_obj)
    if layer_keep is not None:
        used.layer.london_lambda, used.layer.thickness = layer_keep
    if r0.refused:
        return {"violations": [], "counters": {"refused_mesh": 1}, "classes": ["refused"], "nontrivial": False}
    if r0.exception is not None and not (isinstance(r0.exception, RuntimeError) and "converge" in str(r0.exception)):
        return {"status": "harness_error", "error": "first run of the history failed: " + repr(r0.exception)[:200]}
    r0.cleanup()  # (an earlier run that gave up with 'failed to converge' is a history like any other)
    if spec.get("between") == "dz_copy":
        # a lifted COPY of the device is made (and thrown away): the device itself stays where it is
        _lifted = used.translate(dz=1.5 * float(used.layer.coherence_length))
        del _lifted
    move(used)
    fresh = build()
    move(fresh)
    runs = []
    if opts_obj is not None:
        opts_obj.adaptive = True
        opts_obj.solve_time = spec["options"]["solve_time"]
        opts_obj.terminal_psi = sim.build_options(spec["options"], output_file=None).terminal_psi
    for label, d in (("used_device", used), ("fresh_device", fresh)):
        tm = simmon.TraceMonitor()
        rr = sim.run_sim(spec, [tm], device=d, keep_dir=True, options_obj=opts_obj if label == "used_device" else None)
        if rr.refused:
            return {"violations": [], "counters": {"refused_mesh": 1}, "classes": ["refused"], "nontrivial": False}
        dg, ups = _digests(rr, tm)
        runs.append((label, dg, len(ups)))
        shutil.rmtree(rr.outdir, ignore_errors=True)
    V, C = [], {"process_runs": 2, "history_comparisons": 1}
    (la, da, na), (lb, db, nb) = runs
    for k in sorted(set(da) | set(db)):
        if da.get(k) != db.get(k):
            V.append({"kind": "result_depends_on_what_the_device_was_used_for_before", "mechanism": "nondeterministic_" + k,
                      "detail": {"what": k, "history": ("solve(adaptive=False) with the same options object, " if spec.get("reuse_options") else "solve(terminal_psi=0), ") + ("translate in place, " if spec.get("translate") else "") + "solve", "updates": [na, nb]}})
            break
    return {"violations": V, "counters": C, "classes": ["history", "translated=" + str(bool(spec.get("translate"))), "terminal_psi=" + str(spec["options"].get("terminal_psi"))],
            "nontrivial": min(na, nb) >= 10, "sample": {"config": spec["config"], "updates": [na, nb], "digests_equal": not V}}


def _run_param_reuse(spec):
    """The caller's Parameter object is an input: a run with it, the object mentioned in an arithmetic expression, the same run
    again with it, and the run with a freshly made equal object all give the same digests."""
    import shutil

    dev, why = zoo.try_build_device(spec["device"])
    if dev is None:
        return {"violations": [], "counters": {"refused_mesh": 1}, "classes": ["refused"], "nontrivial": False}
    opts = sim.build_options(sim.resolve_auto_dt(spec, dev)["options"])
    sp = sim.resolve_auto_dt(spec, dev)
    field, _, _ = sim.build_drive(sp["drive"], dev, opts)
    runs = []
    V, C = [], {"process_runs": 0, "history_comparisons": 0}
    for label in ("first_use", "after_2_times_field_was_written", "after_field_plus_field_and_a_call", "fresh_object"):
        if label == "after_2_times_field_was_written":
            _unused = 2.0 * field  # noqa: F841
        if label == "after_field_plus_field_and_a_call":
            _unused = field + field
            _unused(np.array([0.0, 1.0]), np.array([0.5, 0.25]), np.array([0.0, 0.0]), t=0.0)
        tm = simmon.TraceMonitor()
        rr = sim.run_sim(spec, [tm], device=dev, keep_dir=True, avp_obj=None if label == "fresh_object" else field)
        if rr.refused:
            return {"violations": [], "counters": {"refused_mesh": 1}, "classes": ["refused"], "nontrivial": False}
        if rr.exception is not None and not runs:
            shutil.rmtree(rr.outdir, ignore_errors=True)
            return {"status": "harness_error", "error": "first run failed: " + repr(rr.exception)[:200]}
        dg, ups = _digests(rr, tm)
        dg.pop("mesh", None)
        runs.append((label, dg, len(ups)))
        C["process_runs"] += 1
        shutil.rmtree(rr.outdir, ignore_errors=True)
    for label, dg, n in runs[1:]:
        C["history_comparisons"] += 1
        for k in sorted(set(dg) | set(runs[0][1])):
            if dg.get(k) != runs[0][1].get(k):
                V.append({"kind": "result_depends_on_what_the_parameter_object_was_used_for_before", "mechanism": "nondeterministic_" + k,
                          "detail": {"what": k, "run": label, "updates": [runs[0][2], n]}})
                break
    return {"violations": V, "counters": C, "classes": ["param_reuse", "terminals=" + str(len(spec["device"].get("terminals", [])))],
            "nontrivial": min(r[2] for r in runs) >= 10, "sample": {"config": spec["config"], "runs": [(l, n, d.get("update_states", "")[:16]) for l, d, n in runs]}}


def finalize(results, tier):
    """Cross-process comparison: all digests of a configuration must coincide."""
    V = []
    by = {}
    for r in results:
        if r.get("digests"):
            by.setdefault(r["config"], []).append(r)
    for cfg, rs in by.items():
        ref = rs[0]
        for r in rs[1:]:
            for k in sorted(set(ref["digests"]) | set(r["digests"])):
                a, b = ref["digests"].get(k), r["digests"].get(k)
                if k == "recorded_frames" and (a is None or b is None):
                    continue
                if a != b:
                    V.append({"kind": "digest_differs_across_processes", "mechanism": "nondeterministic_" + k,
                              "detail": {"config": cfg, "what": k, "env_a": ref["env"], "env_b": r["env"], "rep_a": ref["rep"], "rep_b": r["rep"]},
                              "case": r.get("case")})
                    break
        # counted through a synthetic result
    n = sum(max(0, len(rs) - 1) for rs in by.values())
    return {"violations": V, "counters": {"digest_comparisons": n, "configurations_compared": len(by)}}
