"""C13 Screening returns a self-consistent induced vector potential or fails.

Online monitor (vt/simmon.py: ScreeningMonitor) on every call of the documented
TDGLSolver.get_induced_vector_potential: the monitor recomputes (mu0/4pi) sum K a / r in
SI from the passed current density with its own site averaging, CODATA constants and a
direct numpy double sum; the relative mismatch with the iterate must agree with the
reported error, be below tolerance when a step is accepted, and the stored potential must
reproduce the sum from the stored currents. Non-convergence must raise; screening off
must give an identically zero induced potential. L1: the numba kernel vs the direct sum."""
import numpy as np

from .. import sim, simmon, zoo
from . import _simcases as S

RULE = (
    "L2 case = one screening simulation (tolerance in {1e-2,1e-3,1e-4}, step size / drag variations, with/without "
    "terminals and holes, static/ramped field, length units um/nm/mm, ordinary and very weak (1e-8..1e-6 Bc2) fields), a forced non-convergence run (tiny iteration budget), or a "
    "screening-off run (fresh, or started from a seed solution computed with screening); L1 case = 60 random (currents, areas, sites, evaluation points) sets through the real kernel. "
    "non-trivial = >= 5 accepted screening steps checked (L2) / kernel compared (L1); distinct = distinct spec"
)
REQUIRED_COUNTERS = ["iterations_checked", "accepted_steps_checked", "kernel_cases", "nonconvergence_runs", "zero_induced_checks"]
CASE_TIMEOUT = {"quick": 900, "thorough": 2400}
ASSUMPTIONS = ["sheet current on a site = (1/2) mean over incident edges of J_edge * unit edge vector (the convention Solution.current_density exposes)",
               "CODATA 2018 mu0; dual geometry of the mesh taken as given (C07)"]


def _scr_device(rng, size):
    # weak-to-moderate screening so that Polyak's iteration converges: Lambda = lam^2/d of order the device size
    nt = int(rng.choice([0, 0, 2]))
    dev = zoo.gen_device(rng, n_terminals=nt, n_holes=int(rng.choice([0, 1])) if nt == 0 else 0, probes=0, size=size, smooth=0, gamma=float(rng.choice([1.0, 10.0])))
    dev["layer"]["lam"] = float(rng.choice([1.0, 2.0]))
    dev["layer"]["d"] = float(rng.choice([0.1, 0.2]))
    return dev


def gen_cases(tier, seed):
    rng = np.random.default_rng(13_000 + seed)
    cases = []
    n = 4 if tier == "quick" else 30
    for k in range(n):
        dev = _scr_device(rng, "tiny" if tier == "quick" else str(rng.choice(["tiny", "small"])))
        tol = float([1e-2, 1e-3, 1e-4, 1e-3][k % 4])
        lu = ["um", "nm", "um", "mm"][k % 4]
        if lu != "um":
            dev = zoo.scale_device_spec(dev, {"nm": 1e3, "mm": 1e-3}[lu], lu)
        o = dict(solve_time=1.0 if tier == "quick" else 2.0, dt_init=1e-3, dt_max=float(rng.choice([0.02, 0.05])), adaptive=bool(k % 3 != 2),
                 save_every=10, field_units="mT", current_units="uA", output="file", include_screening=True, screening_tolerance=tol,
                 max_iterations_per_step=2000, screening_step_size=float([0.1, 0.05, 0.2, 0.1][k % 4]), screening_step_drag=float([0.5, 1.0, 0.7, 1.0][k % 4]))  # (k % 4 == 2 is overridden below)
        if not o["adaptive"]:
            o.update(dt_init=5e-3, solve_time=0.4)
        if k % 4 == 2:
            # plain fixed-point iteration (no damping, no momentum) on a weakly screening film
            o.update(screening_step_size=1.0, screening_step_drag=1.0)
            dev["layer"]["lam"] = dev["layer"]["lam"] * 2.0
        drive = {"A": S.field_spec(rng, dev, o, ["uniform", "ramp", "uniform", "loop"][k % 4], b=float(rng.choice([0.15, 0.3]))),
                 "currents": S.current_spec(rng, dev, o, "const" if dev["terminals"] else "none", strength=0.1)}
        cases.append({"layer": "L2", "kind": "screening", "device": dev, "options": o, "drive": drive, "monitors": ["screening"], "cost": 60})
        if k % 4 == 0:
            # a sweep over the penetration depth on ONE Device object: the run before this one was a screening run of another material
            cases[-1]["history"] = "layer_edited_screening"
    for k in range(2 if tier == "quick" else 6):
        # an iteration that DIVERGES (over-relaxed, no momentum damping: the iterates overflow and the mismatch becomes inf / nan):
        # the step cannot be accepted - the run ends with the error, no frame holds a non-finite or unconverged potential
        dev = _scr_device(rng, "tiny")
        dev["terminals"] = []
        o = dict(solve_time=0.5, dt_init=1e-3, dt_max=0.02, adaptive=bool(k % 2 == 0), save_every=5, field_units="mT", current_units="uA", output="file",
                 include_screening=True, screening_tolerance=1e-3, max_iterations_per_step=int([400, 250][k % 2]),
                 screening_step_size=float([20.0, 50.0][k % 2]), screening_step_drag=1.0)
        drive = {"A": S.field_spec(rng, dev, o, "uniform", b=0.3)}
        cases.append({"layer": "L2", "kind": "screening", "diverging": True, "device": dev, "options": o, "drive": drive, "monitors": ["screening"], "cost": 40})
    nw = 2 if tier == "quick" else 10
    for k in range(nw):
        # very weak drive: the induced potential is many orders below xi*Bc2, the convergence test is still a relative one
        dev = _scr_device(rng, "tiny")
        dev["terminals"] = []
        lu = ["um", "nm", "mm"][k % 3]
        if lu != "um":
            dev = zoo.scale_device_spec(dev, {"nm": 1e3, "mm": 1e-3}[lu], lu)
        o = dict(solve_time=0.6, dt_init=1e-3, dt_max=0.05, adaptive=True, save_every=10, field_units="mT", current_units="uA", output="file",
                 include_screening=True, screening_tolerance=float([1e-3, 1e-4][k % 2]), max_iterations_per_step=2000)
        drive = {"A": S.field_spec(rng, dev, o, "uniform", b=float([1e-7, 1e-6, 1e-8][k % 3]))}
        cases.append({"layer": "L2", "kind": "screening", "weak": True, "device": dev, "options": o, "drive": drive, "monitors": ["screening"], "cost": 30})
    m = 2 if tier == "quick" else 8
    for k in range(m):
        dev = _scr_device(rng, "tiny")
        o = dict(solve_time=0.3, dt_init=5e-3, dt_max=0.05, adaptive=True, save_every=5, field_units="mT", current_units="uA", output="file",
                 include_screening=True, screening_tolerance=float([1e-6, 1e-9][k % 2]), max_iterations_per_step=int([2, 5, 1, 10][k % 4]))
        drive = {"A": S.field_spec(rng, dev, o, "uniform", b=0.3)}
        cases.append({"layer": "L2", "kind": "nonconvergence", "device": dev, "options": o, "drive": drive, "monitors": ["screening"], "cost": 5})
    for k in range(m):
        dev = _scr_device(rng, "small")
        o = S.base_options(rng, adaptive=True, steps=60)
        drive = {"A": S.field_spec(rng, dev, o, ["ramp", "uniform"][k % 2], b=0.3)}  # (a time-dependent potential is stored per frame, next to the induced one)
        cases.append({"layer": "L2", "kind": "off", "device": dev, "options": o, "drive": drive, "monitors": ["screening"], "cost": 5})
    for k in range(1 if tier == "quick" else 6):
        # screening off, started from a seed solution that was computed WITH screening
        dev = _scr_device(rng, "tiny")
        o = dict(solve_time=0.3, dt_init=1e-3, dt_max=0.05, adaptive=True, save_every=5, field_units="mT", current_units="uA", output="file",
                 include_screening=True, screening_tolerance=1e-3, max_iterations_per_step=2000)
        drive = {"A": S.field_spec(rng, dev, o, "uniform", b=0.3), "currents": S.current_spec(rng, dev, o, "const" if dev["terminals"] else "none", strength=0.1)}
        cases.append({"layer": "L2", "kind": "off_seeded", "device": dev, "options": o, "drive": drive, "monitors": ["screening"], "cost": 20})
    for k in range(1 if tier == "quick" else 4):
        # the field is switched OFF for the continuation (exactly zero potential, no bias): the currents the seed carries decay,
        # and while they do every step is a screening step like any other
        dev = _scr_device(rng, "tiny")
        dev["terminals"] = []
        o = dict(solve_time=0.3, dt_init=1e-3, dt_max=0.05, adaptive=True, save_every=5, field_units="mT", current_units="uA", output="file",
                 include_screening=True, screening_tolerance=1e-3, max_iterations_per_step=4000)
        drive = {"A": S.field_spec(rng, dev, o, "uniform", b=0.3), "currents": {"kind": "none"}}
        cases.append({"layer": "L2", "kind": "field_off_seeded", "device": dev, "options": o, "drive": drive, "monitors": ["screening"], "cost": 20})
    for k in range(2 if tier == "quick" else 4):
        # screening switched off on the solver's options AFTER the solver was constructed (k even), or between two solve() calls of
        # one solver (k odd): a run without screening stores an identically zero induced potential
        dev = _scr_device(rng, "tiny")
        o = dict(solve_time=0.2, dt_init=1e-3, dt_max=0.05, adaptive=True, save_every=5, field_units="mT", current_units="uA", output="file",
                 include_screening=True, screening_tolerance=1e-3, max_iterations_per_step=2000)
        drive = {"A": S.field_spec(rng, dev, o, "uniform", b=0.3), "currents": S.current_spec(rng, dev, o, "const" if dev["terminals"] else "none", strength=0.1)}
        cases.append({"layer": "L2", "kind": "toggled_off", "after_first_solve": bool(k % 2), "device": dev, "options": o, "drive": drive, "monitors": ["screening"], "cost": 15})
    for k in range(1 if tier == "quick" else 5):
        # second generation: options and seed re-loaded from the first run's file (flags come back as numpy scalars)
        dev = _scr_device(rng, "tiny")
        o = dict(solve_time=0.3, dt_init=1e-3, dt_max=0.05, adaptive=True, save_every=5, field_units="mT", current_units="uA", output="file",
                 include_screening=True, screening_tolerance=1e-3, max_iterations_per_step=2000)
        drive = {"A": S.field_spec(rng, dev, o, "ramp", b=0.3), "currents": S.current_spec(rng, dev, o, "const" if dev["terminals"] else "none", strength=0.1)}
        cases.append({"layer": "L2", "kind": "reloaded_options", "device": dev, "options": o, "drive": drive, "monitors": ["screening"], "cost": 20})
    for k in range(1 if tier == "quick" else 2):
        # a mesh with more than 2^14 edges (~6000 sites): every row of the kernel's output is written at every call
        # (the NaN-poisoned output buffer of the sanitizer sees rows that a blocked dispatch forgets)
        dev = zoo.gen_device(rng, n_terminals=0, n_holes=0, probes=0, size="large", smooth=0, film_kind="box", gamma=10.0, xi=1.0)
        dev["film"].update(w=34.0 + 3 * k, h=26.0, points=150)
        dev["mesh"].update(max_edge_length=0.82, min_points=None, smooth=0)
        dev["layer"]["lam"], dev["layer"]["d"] = 6.0, 0.1
        o = dict(solve_time=4e-3, dt_init=1e-3, dt_max=2e-3, adaptive=True, save_every=10, field_units="mT", current_units="uA", output="file",
                 include_screening=True, screening_tolerance=1e-2, max_iterations_per_step=200)
        drive = {"A": S.field_spec(rng, dev, o, "uniform", b=0.02)}
        cases.append({"layer": "L2", "kind": "large_kernel", "device": dev, "options": o, "drive": drive, "monitors": [], "cost": 120})
    for k in range(6 if tier == "quick" else 40):
        cases.append({"layer": "L1", "n": 60 if tier == "quick" else 150, "seed": int(rng.integers(1 << 30)), "cost": 10})
    return cases


def _kernel_case(spec):
    from tdgl.solver.screening import get_A_induced_numba

    rng = np.random.default_rng(spec["seed"])
    V, worst = [], 0.0
    for i in range(spec["n"]):
        n = int(rng.integers(1, 300))
        m = int(rng.integers(1, 400))
        sites = rng.uniform(-1, 1, (n, 2)) * 10.0 ** (rng.uniform(-2, 2) if i % 3 else rng.uniform(-9, -3))  # (every third set: tiny numbers, e.g. lengths in metres)
        pts = rng.uniform(-1.2, 1.2, (m, 2)) * np.abs(sites).max()
        if rng.random() < 0.3 and n > 2:
            # edge centres of pairs of sites (the geometry the solver uses)
            a = rng.integers(0, n, m); b = (a + 1 + rng.integers(0, n - 1, m)) % n
            pts = (sites[a] + sites[b]) / 2
            # drop evaluation points that coincide with a site
        if i % 4 == 3:
            # the same point sets far from the origin (chip coordinates): only coordinate DIFFERENCES enter the kernel
            ang_ = rng.uniform(0, 2 * np.pi)
            off = np.abs(sites).max() * 10.0 ** rng.uniform(2, 5) * np.array([np.cos(ang_), np.sin(ang_)])
            sites = sites + off
            pts = pts + off
        int_sites = False
        if i % 5 == 4:
            # lattice / grid coordinates handed over as INTEGERS (a legitimate point set): distances are real numbers all the same
            sites = np.unique(rng.integers(-40, 40, (n, 2)), axis=0).astype(np.int64)
            n = len(sites)
            pts = rng.uniform(-45, 45, (m, 2))
            int_sites = True
        d = np.hypot(pts[:, None, 0] - sites[None, :, 0], pts[:, None, 1] - sites[None, :, 1])
        if d.min() == 0:
            continue
        J = rng.normal(size=(n, 2)) * 10.0 ** rng.uniform(-3, 3)
        areas = 10.0 ** rng.uniform(-3, 1, n)
        out = np.full((m, 2), np.nan)
        try:
            get_A_induced_numba(J, areas, sites, pts, out)
        except TypeError:
            if not int_sites:
                raise
            continue  # (a kernel that declines integer-typed coordinates outright has not answered wrongly)
        ref = np.einsum("ij,jk->ik", (areas[None, :] / d), J)
        mag = np.einsum("ij,jk->ik", (areas[None, :] / d), np.abs(J)) + 1e-300
        r = float(np.max(np.abs(out - ref) / mag))
        worst = max(worst, r)
        if not np.all(np.isfinite(out)) or r > 1e-10:
            V.append({"kind": "kernel_ne_direct_sum", "mechanism": "kernel_ne_direct_sum", "detail": {"n": n, "m": m, "rel_err": r, "nan": int(np.isnan(out).sum())}})
            if len(V) > 3:
                break
    return {"violations": V, "counters": {"kernel_cases": spec["n"]}, "worst": {"kernel_rel_err_over_gate": worst / 1e-10}, "classes": ["L1/kernel"],
            "nontrivial": True, "sample": {"sets": spec["n"], "worst_rel_err": worst}}


def run_case(spec):
    if spec["layer"] == "L1":
        return _kernel_case(spec)
    tm = simmon.TraceMonitor()

    def post(out):
        rr = out["rr"]
        C = out["counters"]
        for k in ("iterations_checked", "accepted_steps_checked", "nonconvergence_runs", "zero_induced_checks"):
            C.setdefault(k, 0)
        exc = rr.exception
        ups = [u for st in tm.stages for u in st["updates"]]
        saves = [s for st in tm.stages for s in st["saves"]]
        failed_ = [u for u in ups if u.get("failed")]
        if failed_ and exc is None:
            # update() gave up (it raised) and tdgl.solve() nevertheless returned as if the run had been completed
            C["nonconvergence_runs"] += 1
            out["violations"].append({"kind": "nonconvergence_not_reported_to_the_caller", "mechanism": "nonconvergence_swallowed",
                                      "detail": {"raised_inside_update": failed_[-1].get("exc", "")[:200], "at_step": failed_[-1].get("step"), "solve_returned": type(rr.solution).__name__,
                                                 "frames_written": len(saves)}})
        if spec["kind"] == "nonconvergence":
            if isinstance(exc, RuntimeError) and "Screening" in str(exc):
                C["nonconvergence_runs"] += 1
                # no frame may be written after the failing step
                fail_index = len(ups) - 1
                later = [s for s in saves if s["updates_done"] > fail_index]
                if later:
                    out["violations"].append({"kind": "frame_after_nonconvergence", "mechanism": "frame_after_nonconvergence", "detail": {"saves": len(later)}})
            elif exc is None:
                # legitimately converged within the tiny budget? the monitor has judged every accepted step
                C["nonconvergence_budget_sufficed"] = 1
            else:
                out["status"] = "harness_error"; out["error"] = repr(exc)[:300]
        elif exc is not None:
            if isinstance(exc, RuntimeError) and ("Screening" in str(exc) or "failed to converge" in str(exc)):
                C["runs_ending_in_nonconvergence"] = 1
            else:
                out["status"] = "harness_error"; out["error"] = repr(exc)[:300]
        # stored frames when screening is off: identically zero
        if spec["kind"] == "off" and rr.output_path:
            import h5py, os

            if os.path.exists(rr.output_path):
                with h5py.File(rr.output_path, "r") as f:
                    for key in f["data"]:
                        a = np.array(f["data"][key]["induced_vector_potential"])
                        C["zero_induced_checks"] += 1
                        if np.any(a != 0):
                            out["violations"].append({"kind": "induced_nonzero_without_screening", "mechanism": "induced_nonzero_without_screening", "detail": {"frame": key}})
                            break

    run_kwargs = {}
    if spec["kind"] == "off_seeded":
        import copy

        r0 = sim.run_sim(spec, [], keep_dir=True)
        if r0.refused:
            return {"violations": [], "counters": {"refused_mesh": 1}, "classes": ["refused"], "nontrivial": False}
        if r0.exception is not None or r0.solution is None:
            return {"status": "harness_error", "error": "seed run failed: " + repr(r0.exception)[:200]}
        if not np.any(np.asarray(r0.solution.tdgl_data.induced_vector_potential) != 0):
            return {"status": "harness_error", "error": "seed run has no induced potential"}
        spec = copy.deepcopy(spec)
        spec["options"]["include_screening"] = False
        spec["kind"] = "off"
        spec["seeded"] = True
        run_kwargs = dict(device=r0.device, seed_solution=r0.solution)
    if spec["kind"] == "field_off_seeded":
        import copy

        r0 = sim.run_sim(spec, [], keep_dir=True)
        if r0.refused:
            return {"violations": [], "counters": {"refused_mesh": 1}, "classes": ["refused"], "nontrivial": False}
        if r0.exception is not None or r0.solution is None:
            return {"status": "harness_error", "error": "seed run failed: " + repr(r0.exception)[:200]}
        spec = copy.deepcopy(spec)
        spec["drive"]["A"] = {"kind": "zero"}
        spec["kind"] = "screening"
        spec["seeded"] = True
        run_kwargs = dict(device=r0.device, seed_solution=r0.solution)
    if spec["kind"] == "toggled_off":
        import copy

        after_first = spec.get("after_first_solve")
        spec = copy.deepcopy(spec)
        spec["kind"] = "off"
        spec["toggled"] = True

        def _toggle(solver):
            if after_first:
                solver.solve()  # a first run WITH screening on this solver object (its frames are not judged here)
            solver.options.include_screening = False

        run_kwargs = dict(pre_solve=_toggle)
    if spec["kind"] == "reloaded_options":
        import copy

        import tdgl

        r0 = sim.run_sim(spec, [], keep_dir=True)
        if r0.refused:
            return {"violations": [], "counters": {"refused_mesh": 1}, "classes": ["refused"], "nontrivial": False}
        if r0.exception is not None or r0.solution is None:
            return {"status": "harness_error", "error": "first-generation run failed: " + repr(r0.exception)[:200]}
        loaded = tdgl.Solution.from_hdf5(r0.solution.path)
        seed_fields = ("psi", "mu", "supercurrent", "normal_current", "induced_vector_potential")
        seed_before = {f: simmon.h(np.asarray(getattr(loaded.tdgl_data, f))) for f in seed_fields}
        spec = copy.deepcopy(spec)
        spec["kind"] = "screening"
        spec["second_generation"] = True
        # the second generation is driven differently (other field): the seed must still describe ITS OWN run afterwards
        if "B" in spec["drive"]["A"]:
            spec["drive"]["A"]["B"] = 1.5 * spec["drive"]["A"]["B"]
        run_kwargs = dict(device=r0.device, seed_solution=loaded, options_obj=loaded.options)
    out = S.run_sim_case(spec, "C13", extra_listeners=[tm], post=post, **run_kwargs)
    if spec.get("toggled"):
        out.setdefault("counters", {})["screening_toggled_off_runs"] = 1
    elif run_kwargs:
        import shutil

        shutil.rmtree(r0.outdir, ignore_errors=True)
        out.setdefault("counters", {})["second_generation_runs" if spec.get("second_generation") else "seeded_screening_off_runs"] = 1
        if spec.get("second_generation") and "violations" in out:
            seed_after = {f: simmon.h(np.asarray(getattr(loaded.tdgl_data, f))) for f in seed_fields}
            out["counters"]["seed_immutability_checks"] = 1
            if seed_after != seed_before:
                out["violations"].append({"kind": "seed_solution_mutated_by_run", "mechanism": "seed_solution_mutated",
                                          "detail": {"fields": [f for f in seed_fields if seed_before[f] != seed_after[f]]}})
    if out.get("status") == "harness_error":
        return out
    C = out["counters"]
    out["classes"] = ["L2/" + spec["kind"], "tol=%g" % spec["options"].get("screening_tolerance", 0), "length_units=" + spec["device"].get("length_units", "um"), "weak_field=" + str(bool(spec.get("weak"))), "seeded=" + str(bool(spec.get("seeded"))), "reloaded_options=" + str(bool(spec.get("second_generation")))] + S.classes_of(spec)[:4]
    out["nontrivial"] = C.get("accepted_steps_checked", 0) >= 5 or C.get("nonconvergence_runs", 0) > 0 or C.get("zero_induced_checks", 0) > 5
    if spec["kind"] == "large_kernel":
        C["large_mesh_kernel_calls"] = C.get("kernel_buffer_checks", 0)
        out["nontrivial"] = C.get("kernel_buffer_checks", 0) > 0 and out.get("sample", {}).get("sites", 0) > 5000
    return out
