"""C19 Ill-posed problems are rejected before anything is written.

Negative enumeration with a filesystem / temp-dir / hook watch: every generated member
of the ill-posed classes must raise, and afterwards the output directory must be empty,
no TemporaryDirectory may have been created by the run, the DataHandler must never have
been entered and TDGLSolver.update must never have been called."""
import copy
import os
import shutil
import tempfile

import numpy as np

from .. import sim, simmon, zoo
from ..recorder import Recorder
from . import _simcases as S

RULE = (
    "case = one ill-posed problem: unbalanced constant currents (relative imbalance 1..1e-6, 2-4 terminals, bias down to 1e-7 of the natural scale), unknown terminal, "
    "time-dependent currents unbalanced always / on >= 25% of the interval, epsilon = 1 + {1,1e-3,1e-6} (constant, callable, "
    "vectorised or not, time-dependent), each SolverOptions.validate() rule, terminal touching no boundary, seed solution from a "
    "different device, vector potential of wrong shape (tdgl.Parameter or plain function), imbalance on a very weak bias, invalid polygons (self-intersecting, too few points, wrong shape), unnamed "
    "film/hole, duplicate names, probe outside the film; each with and without an explicit output path. non-trivial = the "
    "problem was constructed and submitted (rejection and cleanliness both evaluated); distinct = distinct (class, magnitude, device)"
)
REQUIRED_COUNTERS = ["rejection_checks", "cleanliness_checks"]
CASE_TIMEOUT = {"quick": 600, "thorough": 1200}
LEVEL = "fault_enumeration"
EXHAUSTIVE = {"quick": False, "thorough": False}
ASSUMPTIONS = ["a callable unbalanced only in a window < 25% of the interval cannot be decided by a sampling validator: run as observation, not verdict"]

CLASSES = [
    "unbalanced_const", "unknown_terminal", "unbalanced_callable_always", "unbalanced_callable_window", "epsilon_const", "epsilon_callable",
    "epsilon_callable_novec", "epsilon_time", "opt_dt", "opt_terminal_psi", "opt_multiplier_low", "opt_multiplier_high", "opt_drag_zero", "opt_drag_high",
    "opt_step_size", "opt_tolerance", "opt_gpu", "opt_sparse_unknown", "opt_sparse_umfpack", "opt_sparse_pardiso", "opt_sparse_cupy",
    "terminal_inside_film", "terminal_outside_film", "seed_other_device", "seed_other_device_shared_mesh", "seed_device_modified_in_place", "A_wrong_shape_1col", "A_wrong_shape_flat", "A_wrong_length",
    "A_plain_callable_1col", "A_plain_callable_flat", "A_plain_callable_wrong_length", "A_plain_callable_transposed", "unbalanced_const_small_current",
    "late_opt_dt", "late_opt_terminal_psi", "late_opt_multiplier_high", "late_opt_drag_zero", "late_opt_sparse_unknown",
    "opt_dt_fixed_step", "terminal_moved_off_boundary_after_solve", "single_terminal_with_current", "single_terminal_with_callable_current",
    "terminal_tiny_on_vertex", "seed_device_without_terminals", "seed_device_first_terminal_only", "seed_device_fewer_holes",
    "polygon_self_intersecting", "polygon_invalid_any_input_form", "polygon_scaled_to_nothing", "polygon_setop_not_simply_connected", "polygon_two_points", "polygon_bad_shape", "film_unnamed", "hole_unnamed", "hole_duplicate_names",
    "terminal_duplicate_names", "terminal_unnamed", "probe_outside_film", "probe_in_hole", "probe_bad_shape",
]
OBSERVATION_CLASSES = ["unbalanced_callable_narrow_window", "unknown_terminal_zero_current"]


def gen_cases(tier, seed):
    rng = np.random.default_rng(19_000 + seed)
    reps = 1 if tier == "quick" else 6
    cases = []
    for rep in range(reps):
        for cls in CLASSES + OBSERVATION_CLASSES:
            mags = [None]
            if cls in ("unbalanced_const", "unbalanced_callable_always", "unbalanced_callable_window"):
                mags = [1.0, 1e-2, 1e-4, 1e-6]
            if cls == "unbalanced_const_small_current":
                mags = [1e-2, 1e-4, 1e-6]
            if cls == "terminal_tiny_on_vertex":
                mags = [0.1, 1e-2, 1e-6]
            if cls == "polygon_invalid_any_input_form":
                mags = [0.5, 1e-2, 1e-6]  # how far a vertex is pushed through the opposite side
            if cls in ("opt_dt_fixed_step", "terminal_moved_off_boundary_after_solve"):
                mags = [1.0, 1e-2, 1e-6]
            if cls.startswith("epsilon"):
                mags = [1.0, 1e-3, 1e-6]
            for mag in mags:
                for out in ("file", "temp"):
                    nt = int([2, 3, 4][int(rng.integers(3))])
                    dev = zoo.gen_device(rng, n_terminals=nt, n_holes=int(rng.integers(2)) if cls in ("probe_in_hole", "hole_unnamed", "hole_duplicate_names") or rng.random() < 0.2 else 0,
                                         probes=2, size="tiny", smooth=0)
                    if cls in ("probe_in_hole", "hole_unnamed") and not dev["holes"]:
                        dev = zoo.gen_device(rng, n_terminals=nt, n_holes=1, probes=2, size="tiny", smooth=0)
                    if cls == "seed_device_fewer_holes":
                        dev = zoo.gen_device(rng, n_terminals=0, n_holes=2, probes=0, size="small", smooth=0, film_kind="box")
                    if cls == "hole_duplicate_names":
                        dev = zoo.gen_device(rng, n_terminals=0, n_holes=2, probes=0, size="small", smooth=0, film_kind="box")
                    cases.append({"cls": cls, "mag": mag, "out": out, "device": dev, "seed": int(rng.integers(1 << 30)), "cost": 2})
    return cases


# module-level callables (cloudpickle / inspect friendly)
def _eps_const_callable(r, *, value=2.0, vectorized=True):
    return value * np.ones(len(np.atleast_2d(r)))


def _make_eps_vec(value):
    def eps(r, *, vectorized=True):
        r = np.atleast_2d(r)
        e = np.ones(len(r))
        e[len(r) // 2] = value  # above 1 at a single site only
        return e

    return eps


def _make_eps_novec(value, x0):
    def eps(r):
        return value if abs(r[0] - x0) < 1e-9 else 0.9

    return eps


def _make_eps_time(value):
    def eps(r, *, t, vectorized=True):
        r = np.atleast_2d(r)
        return value * np.ones(len(r))

    return eps


def run_case(spec):
    import tdgl

    rng = np.random.default_rng(spec["seed"])
    cls, mag, out = spec["cls"], spec["mag"], spec["out"]
    workdir = tempfile.mkdtemp(prefix="vt_c19_")
    outdir = os.path.join(workdir, "out")
    os.makedirs(outdir)
    path = os.path.join(outdir, "sub", "result.h5") if out == "file" else None
    tm = simmon.TraceMonitor()
    rec = Recorder([tm])
    V, C = [], {"rejection_checks": 0, "cleanliness_checks": 0}
    raised = None
    stage = "construct"
    dspec = copy.deepcopy(spec["device"])
    o = dict(solve_time=0.05, dt_init=0.005, dt_max=0.05, adaptive=True, save_every=5, field_units="mT", current_units="uA")
    names = [t["name"] for t in dspec["terminals"]]
    bal = {2: [1.0, -1.0], 3: [3.0, -1.0, -2.0], 4: [2.0, 1.0, -4.0, 1.0]}.get(len(names), [])
    tc = {n: 0.5 * b for n, b in zip(names, bal)}
    avp = 0.05
    eps = 1.0
    seed_solution = None
    device = None
    submitted = False
    before_tmp = set(os.listdir(tempfile.gettempdir()))
    try:
        with rec:
            # ---- problems that are ill-posed at device / polygon construction
            if cls == "polygon_self_intersecting":
                stage = "polygon"
                submitted = True
                tdgl.Polygon("p", points=np.array([[0, 0], [2, 2], [2, 0], [0, 2]], dtype=float) * float(rng.uniform(0.5, 3)))
            elif cls == "polygon_invalid_any_input_form":
                # the same invalid outlines in every form the constructor accepts: array, list, shapely LineString / LinearRing / Polygon
                import shapely.geometry as sg

                stage = "polygon"
                submitted = True
                sc_ = float(rng.uniform(0.5, 3))
                outlines = {
                    "bow_tie": np.array([[0, 0], [2, 2], [2, 0], [0, 2]], dtype=float) * sc_,
                    "zero_area": np.array([[0, 0], [1, 1], [2, 2], [1, 1]], dtype=float) * sc_,
                    "vertex_through_opposite_side": np.array([[0, 0], [2, 0], [2, 1], [1, -float(mag)], [0, 1]], dtype=float) * sc_,
                }
                forms = {"array": lambda a: a, "list": lambda a: a.tolist(), "LineString": sg.LineString, "LinearRing": sg.LinearRing, "shapely_Polygon": sg.Polygon}
                accepted = []
                for oname, arr in outlines.items():
                    for fname, mk in forms.items():
                        C["invalid_outline_forms_tried"] = C.get("invalid_outline_forms_tried", 0) + 1
                        try:
                            tdgl.Polygon("p", points=mk(arr))
                            accepted.append(f"{oname} as {fname}")
                        except (ValueError, TypeError):
                            pass
                if accepted:
                    V.append({"kind": "ill_posed_problem_accepted", "mechanism": "accepted_polygon_invalid_any_input_form", "detail": {"accepted": accepted, "depth": mag}})
                raise ValueError("(harness) every invalid outline was tried")
            elif cls == "polygon_scaled_to_nothing":
                stage = "polygon"; submitted = True
                good = tdgl.Polygon("p", points=tdgl.geometry.box(2.0, 1.0))
                good.scale(xfact=0.0, yfact=1.0)
            elif cls == "polygon_setop_not_simply_connected":
                # a set operation whose result is not a simply-connected outline (a ring, two pieces, nothing) is no polygon: every way
                # of asking for it is refused; it never comes back as the filled-in or the first piece
                stage = "polygon"
                submitted = True
                outer = tdgl.Polygon("outer", points=tdgl.geometry.box(4.0, 3.0))
                accepted = []
                for frac in (0.5, 1e-2, 1e-4):
                    inner = tdgl.Polygon("inner", points=tdgl.geometry.box(4.0 * frac, 3.0 * frac, center=(0.3, -0.2)))
                    away = tdgl.Polygon("away", points=tdgl.geometry.box(1.0, 1.0, center=(10.0, 0.0)))
                    tries = {
                        "outer.difference(inner)": lambda: outer.difference(inner),
                        "outer - inner": lambda: outer - inner,
                        "from_difference": lambda: tdgl.Polygon.from_difference([outer, inner], name="r"),
                        "outer.union(away)": lambda: outer.union(away),
                        "outer.intersection(away)": lambda: outer.intersection(away),
                    }
                    for tname, fn in tries.items():
                        C["setop_rejections_tried"] = C.get("setop_rejections_tried", 0) + 1
                        try:
                            r_ = fn()
                            accepted.append(f"{tname} (inner = {frac} of outer) -> area {float(r_.area):.6g}")
                        except (ValueError, TypeError):
                            pass
                if accepted:
                    V.append({"kind": "ill_posed_problem_accepted", "mechanism": "accepted_polygon_setop_not_simply_connected", "detail": {"accepted": accepted[:6]}})
                raise ValueError("(harness) every set operation was tried")
            elif cls == "polygon_two_points":
                stage = "polygon"; submitted = True
                tdgl.Polygon("p", points=np.array([[0.0, 0.0], [1.0, 1.0]]))
            elif cls == "polygon_bad_shape":
                stage = "polygon"; submitted = True
                tdgl.Polygon("p", points=np.arange(12.0).reshape(4, 3))
            elif cls in ("film_unnamed", "hole_unnamed", "hole_duplicate_names", "terminal_duplicate_names", "terminal_unnamed", "probe_outside_film", "probe_in_hole", "probe_bad_shape"):
                stage = "device"
                layer = tdgl.Layer(coherence_length=dspec["layer"]["xi"], london_lambda=dspec["layer"]["lam"], thickness=dspec["layer"]["d"])
                film = zoo.build_polygon(dspec["film"], "film")
                holes = [zoo.build_polygon(h, h.get("name", f"hole{i}")) for i, h in enumerate(dspec.get("holes", []))]
                terms = [zoo.build_polygon(t, t["name"]) for t in dspec.get("terminals", [])]
                probes = dspec.get("probes")
                W = np.ptp(film.points[:, 0])
                if cls == "film_unnamed":
                    film.name = None
                elif cls == "hole_unnamed":
                    holes[0].name = None
                elif cls == "hole_duplicate_names":
                    holes[1].name = holes[0].name
                elif cls == "terminal_duplicate_names":
                    terms[1].name = terms[0].name
                elif cls == "terminal_unnamed":
                    terms[0].name = None
                elif cls == "probe_outside_film":
                    probes = [[0.0, 0.0], [film.points[:, 0].max() + float(rng.choice([1e-3, 0.5])) * W, 0.0]]
                elif cls == "probe_in_hole":
                    c = holes[0].points[:-1].mean(axis=0)
                    probes = [[float(c[0]), float(c[1])], [-0.38 * W, 0.0]]
                elif cls == "probe_bad_shape":
                    probes = [[0.0, 0.0, 0.0], [0.1, 0.1, 0.1]]
                submitted = True
                tdgl.Device("d", layer=layer, film=film, holes=holes, terminals=terms, probe_points=probes)
            else:
                # ---- problems rejected by the solver / options
                if cls == "terminal_inside_film":
                    dspec["holes"] = []  # (a hole outline is a boundary too: a terminal on it is legitimate)
                    dspec["terminals"][0].update(center=[0.0, 0.0], w=0.05 * dspec["film"]["w"], h=0.05 * dspec["film"]["h"])
                elif cls == "terminal_outside_film":
                    dspec["terminals"][0]["center"] = [dspec["film"]["w"] * 3, 0.0]
                elif cls in ("single_terminal_with_current", "single_terminal_with_callable_current"):
                    # ONE terminal and a current through it: nothing can balance it
                    dspec["terminals"] = dspec["terminals"][:1]
                    dspec["probes"] = None
                    only = dspec["terminals"][0]["name"]
                    tc = {only: float(rng.choice([0.5, 1e-3, 1e-6]))}
                    if cls == "single_terminal_with_callable_current":
                        tc = (lambda t, d=dict(tc): dict(d))
                elif cls == "terminal_tiny_on_vertex":
                    # a terminal much smaller than one boundary edge, sitting on a single vertex of the film outline:
                    # it contains a boundary site but covers no boundary length
                    fp = zoo.build_polygon(dspec["film"], "film").points[:-1]
                    j = int(rng.integers(len(fp)))
                    dd = np.linalg.norm(fp - fp[j], axis=1)
                    spacing = float(dd[dd > 1e-9 * dd.max()].min())
                    dspec["holes"] = []
                    dspec["terminals"][0] = {"kind": "box", "w": mag * spacing, "h": mag * spacing, "center": [float(fp[j][0]), float(fp[j][1])], "points": 8, "name": dspec["terminals"][0]["name"]}
                device = zoo.build_device(dspec)
                stage = "solve"
                if cls == "terminal_tiny_on_vertex":
                    # premise: the terminal covers no boundary edge of the mesh actually generated (edge centres, own computation)
                    em_ = device.mesh.edge_mesh
                    xi_ = device.layer.coherence_length
                    bc = xi_ * em_.centers[em_.boundary_edge_indices]
                    t0 = dspec["terminals"][0]
                    inside = (np.abs(bc[:, 0] - t0["center"][0]) <= t0["w"] / 2) & (np.abs(bc[:, 1] - t0["center"][1]) <= t0["h"] / 2)
                    if inside.any():
                        shutil.rmtree(workdir, ignore_errors=True)
                        return {"violations": [], "counters": {"premise_not_met": 1}, "classes": ["premise_not_met/" + cls], "nontrivial": False}
                if cls == "unbalanced_const":
                    k = names[int(rng.integers(len(names)))]
                    tc[k] = tc[k] * (1 + mag) if tc[k] else mag
                elif cls == "unbalanced_const_small_current":
                    # the same relative imbalance on a much weaker bias: ill-posedness does not depend on the magnitude
                    f = float(rng.choice([1e-3, 1e-5, 1e-7]))
                    tc = {k: v * f for k, v in tc.items()}
                    k = next(k for k in names if tc[k])
                    tc[k] = tc[k] * (1 + mag)
                elif cls in ("single_terminal_with_current", "single_terminal_with_callable_current"):
                    pass  # (handled below: the device keeps only its first terminal)
                elif cls == "unknown_terminal":
                    # a misspelt terminal name carrying the balancing current
                    tc = dict(tc); k = names[-1]; tc[k + "_typo"] = tc.pop(k)
                elif cls == "unknown_terminal_zero_current":
                    tc = dict(tc); tc["nosuchterminal"] = 0.0
                elif cls in ("unbalanced_callable_always", "unbalanced_callable_window", "unbalanced_callable_narrow_window"):
                    base = dict(tc); k0 = names[0]; T = o["solve_time"]
                    frac = {"unbalanced_callable_always": 1.0, "unbalanced_callable_window": float(rng.choice([0.25, 0.5])), "unbalanced_callable_narrow_window": 0.02}[cls]
                    t0 = float(rng.uniform(0, 1 - frac)) * T if frac < 1 else 0.0
                    m = mag if mag is not None else 1e-2

                    def tcf(t, base=base, k0=k0, t0=t0, t1=t0 + frac * T, m=m):
                        d = dict(base)
                        if t0 <= t <= t1:
                            d[k0] = d[k0] * (1 + m)
                        return d

                    tc = tcf
                elif cls == "epsilon_const":
                    eps = 1.0 + mag
                elif cls == "epsilon_callable":
                    eps = _make_eps_vec(1.0 + mag)
                elif cls == "epsilon_callable_novec":
                    x0 = float(device.points[len(device.points) // 3, 0])
                    eps = _make_eps_novec(1.0 + mag, x0)
                elif cls == "epsilon_time":
                    eps = _make_eps_time(1.0 + mag)
                elif cls.startswith("late_opt_"):
                    late = {"late_opt_dt": dict(dt_init=0.1, dt_max=0.05), "late_opt_terminal_psi": dict(terminal_psi=1.5),
                            "late_opt_multiplier_high": dict(adaptive_time_step_multiplier=1.5), "late_opt_drag_zero": dict(include_screening=True, screening_step_drag=0.0),
                            "late_opt_sparse_unknown": dict(sparse_solver="nosuchsolver")}[cls]
                elif cls == "opt_dt_fixed_step":
                    # dt_init above dt_max is inconsistent whether or not the step is adaptive
                    o.update(adaptive=False, dt_max=0.005, dt_init=0.005 * (1 + mag))
                elif cls == "terminal_moved_off_boundary_after_solve":
                    # the device is solved once (legitimate), then one terminal polygon is moved in place so that it no longer
                    # touches the film; the second problem is ill posed
                    so = sim.build_options(dict(o), output_file=None)
                    tdgl.solve(device, so, applied_vector_potential=0.05, terminal_currents=tc)
                    t0 = device.terminals[0]
                    tp = np.asarray(t0.points)
                    fp_ = np.asarray(device.film.points)
                    W_ = float(np.ptp(fp_[:, 0]))
                    # move it outwards (away from the film centre) until a gap of mag * W remains between terminal and film
                    cen_f = fp_[:-1].mean(axis=0)
                    cen_t = tp[:-1].mean(axis=0)
                    if abs(cen_t[0] - cen_f[0]) >= abs(cen_t[1] - cen_f[1]):
                        sgn = np.sign(cen_t[0] - cen_f[0]) or 1.0
                        inner = tp[:, 0].min() if sgn > 0 else tp[:, 0].max()
                        edge = fp_[:, 0].max() if sgn > 0 else fp_[:, 0].min()
                        t0.translate(dx=float(edge - inner + sgn * mag * W_), inplace=True)
                    else:
                        sgn = np.sign(cen_t[1] - cen_f[1]) or 1.0
                        inner = tp[:, 1].min() if sgn > 0 else tp[:, 1].max()
                        edge = fp_[:, 1].max() if sgn > 0 else fp_[:, 1].min()
                        t0.translate(dy=float(edge - inner + sgn * mag * W_), inplace=True)
                    tm.tempdirs.clear(); tm.handler_paths.clear(); tm.stages.clear()
                    rec.counts.clear()
                    before_tmp = set(os.listdir(tempfile.gettempdir()))
                elif cls == "opt_dt":
                    o.update(dt_init=0.1, dt_max=0.05)
                elif cls == "opt_terminal_psi":
                    o["terminal_psi"] = [1.5, [0.8, 0.8], -1.0001][int(rng.integers(3))]
                elif cls == "opt_multiplier_low":
                    o["adaptive_time_step_multiplier"] = float(rng.choice([0.0, -0.5]))
                elif cls == "opt_multiplier_high":
                    o["adaptive_time_step_multiplier"] = float(rng.choice([1.0, 1.5]))
                elif cls == "opt_drag_zero":
                    o.update(include_screening=True, screening_step_drag=float(rng.choice([0.0, -0.1])))
                elif cls == "opt_drag_high":
                    o.update(include_screening=True, screening_step_drag=1.0001)
                elif cls == "opt_step_size":
                    o.update(include_screening=True, screening_step_size=float(rng.choice([0.0, -1.0])))
                elif cls == "opt_tolerance":
                    o.update(include_screening=True, screening_tolerance=float(rng.choice([0.0, -1e-3])))
                elif cls == "opt_gpu":
                    o["gpu"] = True
                elif cls == "opt_sparse_unknown":
                    o["sparse_solver"] = "nosuchsolver"
                elif cls == "opt_sparse_umfpack":
                    o["sparse_solver"] = "umfpack"
                elif cls == "opt_sparse_pardiso":
                    o["sparse_solver"] = "pardiso"
                elif cls == "opt_sparse_cupy":
                    o["sparse_solver"] = "cupy"
                elif cls == "A_wrong_shape_1col":
                    avp = tdgl.Parameter(_A_one_column)
                elif cls == "A_wrong_shape_flat":
                    avp = tdgl.Parameter(_A_flat)
                elif cls == "A_wrong_length":
                    avp = tdgl.Parameter(_A_wrong_length)
                elif cls == "A_plain_callable_1col":
                    avp = _A_one_column_nonzero  # plain functions are accepted in place of a tdgl.Parameter
                elif cls == "A_plain_callable_flat":
                    avp = _A_flat
                elif cls == "A_plain_callable_wrong_length":
                    avp = _A_wrong_length
                elif cls == "A_plain_callable_transposed":
                    avp = _A_transposed
                elif cls == "seed_other_device":
                    other = copy.deepcopy(dspec)
                    other["film"]["w"] *= 1.1
                    for t in other["terminals"]:
                        t["center"][0] *= 1.1
                    odev = zoo.build_device(other)
                    so = sim.build_options(dict(o), output_file=None)
                    seed_solution = tdgl.solve(odev, so, applied_vector_potential=0.05)
                    # the seed run itself is legitimate: reset the watch
                    tm.tempdirs.clear(); tm.handler_paths.clear(); tm.stages.clear()
                    rec.counts.clear()
                    before_tmp = set(os.listdir(tempfile.gettempdir()))
                elif cls in ("seed_device_without_terminals", "seed_device_first_terminal_only", "seed_device_fewer_holes"):
                    # the seed's device has a strict subset (a name-sorted prefix) of the terminals / holes
                    other = copy.deepcopy(dspec)
                    if cls == "seed_device_without_terminals":
                        other["terminals"] = []
                    elif cls == "seed_device_first_terminal_only":
                        other["terminals"] = sorted(other["terminals"], key=lambda t: t["name"])[:1]
                    else:
                        other["holes"] = sorted(other["holes"], key=lambda h: h["name"])[:1]
                    other["probes"] = None
                    odev = zoo.build_device(other)
                    so = sim.build_options(dict(o), output_file=None)
                    seed_solution = tdgl.solve(odev, so, applied_vector_potential=0.05)
                    tm.tempdirs.clear(); tm.handler_paths.clear(); tm.stages.clear()
                    rec.counts.clear()
                    before_tmp = set(os.listdir(tempfile.gettempdir()))
                elif cls in ("seed_other_device_shared_mesh", "seed_device_modified_in_place"):
                    # a different device derived without re-meshing: copy (shares the Mesh object) with another layer / probes
                    so = sim.build_options(dict(o), output_file=None)
                    if cls == "seed_other_device_shared_mesh":
                        odev = device.copy(with_mesh=True)
                        which = int(rng.integers(3))
                        if which == 0:
                            odev.layer.london_lambda *= float(rng.choice([2.0, 1 + 1e-3, 1 + 1e-6]))
                        elif which == 1:
                            odev.layer.gamma = odev.layer.gamma + 1.0
                        else:
                            odev.layer.coherence_length *= 1.0 + 1e-6
                        seed_solution = tdgl.solve(odev, so, applied_vector_potential=0.05)
                    else:
                        seed_solution = tdgl.solve(device, so, applied_vector_potential=0.05)
                        device.layer.london_lambda *= 1.5  # edited after the seed was computed
                    tm.tempdirs.clear(); tm.handler_paths.clear(); tm.stages.clear()
                    rec.counts.clear()
                    before_tmp = set(os.listdir(tempfile.gettempdir()))
                opts = sim.build_options(o, output_file=path)
                if cls.startswith("late_opt_"):
                    # the solver object is built from consistent options; the SAME options object is edited before solve()
                    solver = tdgl.TDGLSolver(device, opts, applied_vector_potential=avp, terminal_currents=tc, disorder_epsilon=eps)
                    for k_, v_ in late.items():
                        setattr(opts, k_, v_)
                    submitted = True
                    solver.solve()
                else:
                    submitted = True
                    tdgl.solve(device, opts, applied_vector_potential=avp, terminal_currents=tc, disorder_epsilon=eps, seed_solution=seed_solution)
    except ImportError:
        raise
    except Exception as exc:  # the expected outcome
        raised = exc
    observation = cls in OBSERVATION_CLASSES
    if not submitted and isinstance(raised, ValueError) and ("Malformed Voronoi" in str(raised) or "Points cannot contain NaN" in str(raised)):
        shutil.rmtree(workdir, ignore_errors=True)
        return {"violations": [], "counters": {"refused_mesh": 1}, "classes": ["refused"], "nontrivial": False}
    if not submitted:
        shutil.rmtree(workdir, ignore_errors=True)
        return {"status": "harness_error", "error": f"could not construct the ill-posed problem ({cls}): {raised!r}"}
    # environment: sparse solvers / cupy that ARE installed make the problem well-posed
    C["rejection_checks"] += 1
    if raised is None:
        if observation:
            C["observations_not_rejected"] = 1
        else:
            V.append({"kind": "ill_posed_problem_accepted", "mechanism": "accepted_" + cls, "detail": {"class": cls, "magnitude": mag, "output": out, "stage": stage}})
    else:
        C["rejections_" + type(raised).__name__] = 1
    # cleanliness: nothing created
    if raised is not None or not observation:
        C["cleanliness_checks"] += 1
        left = []
        for root, dirs, files in os.walk(outdir):
            for f in files + dirs:
                left.append(os.path.relpath(os.path.join(root, f), outdir))
        if raised is not None:
            if left:
                V.append({"kind": "rejected_problem_left_files", "mechanism": "rejected_problem_left_output", "detail": {"class": cls, "left": left[:5]}})
            if tm.tempdirs:
                still = [p for p in tm.tempdirs if os.path.exists(p)]
                V.append({"kind": "rejected_problem_created_tempdir", "mechanism": "rejected_problem_created_tempdir", "detail": {"class": cls, "created": len(tm.tempdirs), "still_there": len(still)}})
            if tm.handler_paths:
                V.append({"kind": "rejected_after_output_opened", "mechanism": "rejected_after_output_opened", "detail": {"class": cls, "paths": [p for p, _ in tm.handler_paths]}})
            if rec.counts.get("on_update_begin", 0):
                V.append({"kind": "rejected_after_simulating", "mechanism": "rejected_after_simulating", "detail": {"class": cls, "updates": rec.counts.get("on_update_begin")}})
            new_tmp = [p for p in set(os.listdir(tempfile.gettempdir())) - before_tmp if p.startswith("tmp") and p != os.path.basename(workdir)]
            # other workers share the temp dir: only directories that contain tdgl's 'output.h5' are attributable
            mine = [p for p in new_tmp if os.path.exists(os.path.join(tempfile.gettempdir(), p, "output.h5")) and False]
            if mine:
                V.append({"kind": "temp_output_left", "mechanism": "rejected_problem_left_output", "detail": {"class": cls}})
    shutil.rmtree(workdir, ignore_errors=True)
    return {"violations": V, "counters": C, "classes": ["class=" + cls, "output=" + out] + (["magnitude=%g" % mag] if mag else []) + (["raised=" + type(raised).__name__] if raised is not None else ["not_raised"]),
            "nontrivial": not observation, "key": f"{cls}|{mag}|{out}|{spec['seed']}",
            "sample": {"class": cls, "magnitude": mag, "output": out, "raised": None if raised is None else f"{type(raised).__name__}: {str(raised)[:100]}"}}


def _A_one_column(x, y, z):
    return np.zeros((len(np.atleast_1d(x)), 1))


def _A_one_column_nonzero(x, y, z):
    return 0.05 * np.atleast_1d(y)[:, None]


def _A_transposed(x, y, z):
    x = np.atleast_1d(x)
    return np.zeros((3, len(x)))


def _A_flat(x, y, z):
    return np.zeros(len(np.atleast_1d(x)))


def _A_wrong_length(x, y, z):
    return np.zeros((len(np.atleast_1d(x)) + 1, 3))
