"""C06 The order parameter is pinned on current terminals and nowhere else.

Online monitor (vt/simmon.py: PinMonitor) at every update return and every saved
frame: psi on terminal sites equals the configured value exactly; the identity rows
of the Laplacian in use are exactly the terminal sites (none when terminal_psi is
None); every non-pinned site follows the free TDGL update computed by the oracle
with an independently rebuilt Laplacian. Differential: with terminal_psi=None and no
current the run must equal, bit for bit, the run on the same device without
terminals."""
import copy

import numpy as np

from .. import sim, simmon, zoo
from . import _simcases as S

RULE = (
    "case = one simulation of a device with 2-4 terminals on the outer rim (or a Corbino disk whose source covers the rim of the hole), terminal_psi in {0, None, 0.5, 1, 0.3+0.4j}, field in "
    "{zero, uniform, ramp}, currents in {none, const, callable}, screening on/off; or a differential pair "
    "(unpinned terminals, zero current) vs (no terminals); or one Device object solved, moved in place (translate(inplace=True) / "
    "translation() context) or meshed again with another density, solved again and solved once more after moving / meshing back. non-trivial = >= 10 update returns checked on a device "
    "with >= 2 terminal sites; distinct = distinct spec"
)
REQUIRED_COUNTERS = ["pin_value_checks", "pinned_row_checks", "free_site_checks", "unpinned_equals_noterminal_checks", "seeded_runs", "moved_device_runs"]
CASE_TIMEOUT = {"quick": 600, "thorough": 1500}
ASSUMPTIONS = ["terminal site membership is taken from Device.terminal_info() (C07)"]

TPSI = [0.0, "none", 0.5, 1.0, [0.3, 0.4], 0.0, "none", -0.7]


def gen_cases(tier, seed):
    rng = np.random.default_rng(6_000 + seed)
    n = 14 if tier == "quick" else 120
    cases = []
    for k in range(n):
        scr = (k % 7 == 6)
        nt = [2, 2, 3, 4][k % 4]
        dev = zoo.gen_device(rng, n_terminals=nt, n_holes=int(k % 5 == 0), probes=int(rng.choice([0, 2])), size="tiny" if scr else "small")
        o = S.base_options(rng, adaptive=bool(k % 2), steps=40 if scr else 100, screening=scr)
        o["terminal_psi"] = TPSI[k % len(TPSI)]
        if scr:
            o["terminal_psi"] = [0.5, [0.3, 0.4], -0.7, 1.0][(k // 7) % 4]  # screening iterations with a non-zero pinned value
        if k % 5 == 3:
            dev["film"]["points"] = 4  # film given by its corners only: the mesher inserts the boundary sites itself
        Ak = ["zero", "uniform", "ramp", "osc"][k % 4]
        Ik = ["none", "const", "callable", "const"][(k // 2) % 4]
        drive = {"A": S.field_spec(rng, dev, o, Ak, b=0.2), "currents": S.current_spec(rng, dev, o, Ik, strength=0.15)}
        cases.append({"kind": "pin", "device": dev, "options": o, "drive": drive, "monitors": ["pin"], "cost": 30 if scr else 6})
    nc = 2 if tier == "quick" else 12
    for k in range(nc):
        # a terminal that sits on the rim of a HOLE (Corbino geometry): hole-rim sites are terminal sites too
        dev = zoo.gen_corbino(rng, size="small")
        o = S.base_options(rng, adaptive=bool(k % 2), steps=60)
        o["terminal_psi"] = [0.0, 0.5, "none", [0.3, 0.4]][k % 4]
        drive = {"A": S.field_spec(rng, dev, o, ["uniform", "zero"][k % 2], b=0.15), "currents": S.current_spec(rng, dev, o, ["const", "none"][(k // 2) % 2], strength=0.1)}
        cases.append({"kind": "pin", "corbino": True, "device": dev, "options": o, "drive": drive, "monitors": ["pin"], "cost": 8})
    ns = 4 if tier == "quick" else 24
    for k in range(ns):
        # a run continued from a seed solution whose terminal sites hold another value
        nt = [2, 3][k % 2]
        dev = zoo.gen_device(rng, n_terminals=nt, probes=0, size="small")
        o = S.base_options(rng, adaptive=bool(k % 2), steps=40)
        drive = {"A": S.field_spec(rng, dev, o, ["uniform", "zero"][k % 2], b=0.2), "currents": S.current_spec(rng, dev, o, ["const", "none"][(k // 2) % 2], strength=0.15)}
        cases.append({"kind": "seeded", "device": dev, "options": o, "drive": drive, "monitors": ["pin"],
                      "seed_terminal_psi": ["none", 1.0, 0.0, "none"][k % 4], "terminal_psi": [0.0, 0.5, "none", [0.3, 0.4]][k % 4], "cost": 10})
    nm = 3 if tier == "quick" else 18
    for k in range(nm):
        # one Device object used for several solves, moved in place between them
        dev = zoo.gen_device(rng, n_terminals=[2, 3, 4][k % 3], n_holes=int(k % 3 == 2), probes=0, size="small")
        o = S.base_options(rng, adaptive=bool(k % 2), steps=30)
        o["terminal_psi"] = [0.0, 0.5, [0.3, 0.4]][k % 3]
        drive = {"A": S.field_spec(rng, dev, o, "uniform", b=0.2), "currents": S.current_spec(rng, dev, o, ["const", "none"][k % 2], strength=0.15)}
        ang = float(rng.uniform(0, 2 * np.pi))
        if k % 3 == 2:
            dev["holes"] = []
            dev["film"]["points"] = 4  # corners only: the boundary sites are numbered by the mesher, differently for each density
        cases.append({"kind": "moved", "device": dev, "options": o, "drive": drive, "monitors": ["pin"], "move": ["translate_inplace", "translation_context", "remesh"][k % 3],
                      "shift_frac": [[0.3, 0.03][(k // 2) % 2] * np.cos(ang), [0.3, 0.03][(k // 2) % 2] * np.sin(ang)], "cost": 12})
    for k in range(2 if tier == "quick" else 8):
        # the device went through a file (to_hdf5 / from_hdf5 with its mesh) before it is solved
        dev = zoo.gen_device(rng, n_terminals=[2, 3][k % 2], n_holes=int(k % 2), probes=0, size="small")
        o = S.base_options(rng, adaptive=bool(k % 2), steps=40)
        o["terminal_psi"] = [0.0, 0.5][k % 2]
        drive = {"A": S.field_spec(rng, dev, o, "uniform", b=0.2), "currents": S.current_spec(rng, dev, o, "const", strength=0.15)}
        cases.append({"kind": "reloaded", "device": dev, "options": o, "drive": drive, "monitors": ["pin"], "cost": 8})
    for k in range(2 if tier == "quick" else 8):
        # ONE SolverOptions object: first used on a device WITHOUT terminals, then on the device with terminals
        dev = zoo.gen_device(rng, n_terminals=[2, 3][k % 2], probes=0, size="small")
        o = S.base_options(rng, adaptive=bool(k % 2), steps=40)
        o["terminal_psi"] = [0.0, [0.0, 0.6], 0.5, -0.7][k % 4]
        drive = {"A": S.field_spec(rng, dev, o, "uniform", b=0.2), "currents": S.current_spec(rng, dev, o, ["const", "none"][k % 2], strength=0.15)}
        cases.append({"kind": "options_reused", "device": dev, "options": o, "drive": drive, "monitors": ["pin"], "cost": 10})
    m = 3 if tier == "quick" else 20
    for k in range(m):
        dev = zoo.gen_device(rng, n_terminals=[2, 3, 4][k % 3], probes=0, size="small")
        o = S.base_options(rng, adaptive=bool(k % 2), steps=80)
        o["terminal_psi"] = "none"
        drive = {"A": S.field_spec(rng, dev, o, ["uniform", "ramp", "zero"][k % 3], b=0.3)}
        cases.append({"kind": "diff", "device": dev, "options": o, "drive": drive, "cost": 10})
    return cases


def _run_moved(spec):
    """solve; move the device in place; solve; (leave the context / move back); solve. The pin monitor
    derives the terminal sites of every run from the polygons' current vertices and the mesh in use."""
    import contextlib

    device, why = zoo.try_build_device(spec["device"])
    if device is None:
        return {"violations": [], "counters": {"refused_mesh": 1}, "classes": ["refused"], "nontrivial": False}
    pts = np.asarray(device.film.points)
    size = float(np.ptp(pts, axis=0).max())
    dx, dy = (size * float(f) for f in spec["shift_frac"])
    V, C = [], {}
    n_ok = 0

    def one(label):
        nonlocal n_ok
        out = S.run_sim_case(spec, "C06", device=device)
        if out.get("classes") == ["refused"]:
            if label != "before_move" and "covers no boundary edge" in out.get("refused_reason", ""):
                # the same device solved before the rigid move: terminals that no longer find their boundary sites are a
                # change of behaviour (an exactly singular factorisation is rounding-dependent and stays a refusal)
                V.append({"kind": "run_on_moved_device_refused", "mechanism": "moved_device_run_raised", "detail": {"phase": label, "move": spec["move"]}})
            return False
        for v in out["violations"]:
            v.setdefault("detail", {})["phase"] = label
            V.append(v)
        for k, v in out["counters"].items():
            C[k] = C.get(k, 0) + v
        exc = out["sample"].get("exception")
        if exc is not None:
            V.append({"kind": "run_on_moved_device_raised", "mechanism": "moved_device_run_raised", "detail": {"phase": label, "exception": exc, "move": spec["move"]}})
        n_ok += out["counters"].get("update_calls", 0) >= 10
        return True

    if not one("before_move"):
        return {"violations": [], "counters": {"refused_mesh": 1}, "classes": ["refused"], "nontrivial": False}
    if V:  # the unmoved run must be clean for the moved ones to be judged
        return {"violations": V, "counters": C, "classes": ["moved/" + spec["move"]], "nontrivial": False}
    if spec["move"] == "remesh":
        # the same Device object meshed again with another density, then solved again; finally the first density again
        m = spec["device"]["mesh"]
        device.make_mesh(max_edge_length=0.7 * m["max_edge_length"], min_points=m.get("min_points"), smooth=m.get("smooth", 0))
        one("remeshed_finer")
        device.make_mesh(max_edge_length=m["max_edge_length"], min_points=m.get("min_points"), smooth=m.get("smooth", 0))
        one("remeshed_back")
        C["moved_device_runs"] = 2
        return {"violations": V[:10], "counters": C, "classes": ["moved/remesh", f"terminals={len(spec['device']['terminals'])}"], "nontrivial": n_ok == 3,
                "sample": {"move": "remesh", "runs_with_10_updates": n_ok}}
    if spec["move"] == "translation_context":
        ctx = device.translation(dx, dy)
    else:
        device.translate(dx, dy, inplace=True)
        ctx = contextlib.nullcontext()
    with ctx:
        one("moved")
    if spec["move"] != "translation_context":
        device.translate(-dx, -dy, inplace=True)
    one("moved_back")
    C["moved_device_runs"] = 2
    return {"violations": V[:10], "counters": C, "classes": ["moved/" + spec["move"], f"terminals={len(spec['device']['terminals'])}"], "nontrivial": n_ok == 3,
            "sample": {"move": spec["move"], "shift": [dx, dy], "runs_with_10_updates": n_ok}}


def run_case(spec):
    if spec["kind"] == "pin":
        out = S.run_sim_case(spec, "C06")
        out["classes"] = S.classes_of(spec) + (["corbino"] if spec.get("corbino") else [])
        c = out["counters"]
        out["nontrivial"] = c.get("update_calls", 0) >= 10 and (c.get("pin_value_checks", 0) > 0 or c.get("free_site_checks", 0) > 0)
        return out
    if spec["kind"] == "seeded":
        sp1 = copy.deepcopy(spec)
        sp1["options"]["terminal_psi"] = spec["seed_terminal_psi"]
        rr1 = sim.run_sim(sp1, [], keep_dir=True)
        if rr1.refused:
            return {"violations": [], "counters": {"refused_mesh": 1}, "classes": ["refused"], "nontrivial": False}
        if rr1.exception is not None or rr1.solution is None:
            return {"status": "harness_error", "error": "seed run failed: " + repr(rr1.exception)[:200]}
        sp2 = copy.deepcopy(spec)
        sp2["options"]["terminal_psi"] = spec["terminal_psi"]
        out = S.run_sim_case(sp2, "C06", device=rr1.device, seed_solution=rr1.solution)
        import shutil

        shutil.rmtree(rr1.outdir, ignore_errors=True)
        out["classes"] = ["seeded", f"seed_terminal_psi={spec['seed_terminal_psi']}", f"terminal_psi={spec['terminal_psi']}"]
        c = out["counters"]
        out["counters"]["seeded_runs"] = 1
        out["nontrivial"] = c.get("update_calls", 0) >= 10
        return out
    if spec["kind"] == "moved":
        return _run_moved(spec)
    if spec["kind"] == "reloaded":
        import os
        import shutil
        import tempfile

        import tdgl

        device, why = zoo.try_build_device(spec["device"])
        if device is None:
            return {"violations": [], "counters": {"refused_mesh": 1}, "classes": ["refused"], "nontrivial": False}
        tmpd = tempfile.mkdtemp(prefix="vt_c06_")
        try:
            device.to_hdf5(os.path.join(tmpd, "dev.h5"))
            loaded = tdgl.Device.from_hdf5(os.path.join(tmpd, "dev.h5"))
        finally:
            shutil.rmtree(tmpd, ignore_errors=True)
        out = S.run_sim_case(spec, "C06", device=loaded)
        out["classes"] = ["reloaded_device", "terminal_psi=" + str(spec["options"].get("terminal_psi"))]
        c = out["counters"]
        c["reloaded_device_runs"] = 1
        out["nontrivial"] = c.get("update_calls", 0) >= 10
        return out
    if spec["kind"] == "options_reused":
        import dataclasses

        device, why = zoo.try_build_device(spec["device"])
        if device is None:
            return {"violations": [], "counters": {"refused_mesh": 1}, "classes": ["refused"], "nontrivial": False}
        bare = copy.deepcopy(spec)
        bare["device"]["terminals"] = []
        bare["drive"] = {"A": spec["drive"]["A"]}
        spec_r = sim.resolve_auto_dt(spec, device)
        opts = sim.build_options(spec_r["options"], output_file=None)
        before = dataclasses.asdict(opts)
        r0 = sim.run_sim(dict(bare, options=spec_r["options"]), [], options_obj=opts)
        if r0.refused:
            return {"violations": [], "counters": {"refused_mesh": 1}, "classes": ["refused"], "nontrivial": False}
        r0.cleanup()
        after = dataclasses.asdict(opts)
        changed = [k for k in before if k not in ("output_file", "progress_interval", "pause_on_interrupt") and before[k] != after[k]]
        V0 = []
        if changed:
            V0.append({"kind": "solve_changes_callers_options", "mechanism": "solve_changes_callers_options",
                       "detail": {"fields": changed, "before": {k: repr(before[k]) for k in changed}, "after": {k: repr(after[k]) for k in changed}}})
        out = S.run_sim_case(spec_r, "C06", device=device, options_obj=opts)
        out["violations"] = V0 + out.get("violations", [])
        out.setdefault("counters", {})["options_reuse_checks"] = 1
        out["classes"] = ["options_reused", "terminal_psi=" + str(spec["options"].get("terminal_psi"))]
        c = out["counters"]
        out["nontrivial"] = c.get("update_calls", 0) >= 10
        return out
    # differential pair
    tms = []
    for variant in ("with_unpinned_terminals", "without_terminals"):
        sp = copy.deepcopy(spec)
        if variant == "without_terminals":
            sp["device"]["terminals"] = []
        tm = simmon.TraceMonitor()
        rr = sim.run_sim(sp, [tm])
        if rr.refused:
            return {"violations": [], "counters": {"refused_mesh": 1}, "classes": ["refused"], "nontrivial": False}
        if rr.exception is not None:
            rr.cleanup()
            return {"status": "harness_error", "error": "differential run raised: " + repr(rr.exception)[:200]}
        tms.append([u["hashes"] for st in tm.stages for u in st["updates"] if not u.get("failed")])
        rr.cleanup()
    V = []
    a, b = tms
    if len(a) != len(b):
        V.append({"kind": "unpinned_run_length_differs", "mechanism": "unpinned_terminals_change_run", "detail": {"steps": [len(a), len(b)]}})
    else:
        for i, (x, y) in enumerate(zip(a, b)):
            if x != y:
                V.append({"kind": "unpinned_run_differs", "mechanism": "unpinned_terminals_change_run",
                          "detail": {"first_differing_update": i, "datasets": [k for k in x if x[k] != y.get(k)]}})
                break
    return {"violations": V, "counters": {"unpinned_equals_noterminal_checks": len(a)}, "classes": ["diff/unpinned_vs_noterminals"],
            "nontrivial": len(a) >= 10, "sample": {"updates_compared": len(a), "identical": not V}}
