"""C01 Charge is conserved in every cell at every recorded step.

Monitor (vt/simmon.py: ChargeMonitor): at every return of TDGLSolver.update the net
outflow of every cell, computed from the edge currents and the dual edge lengths,
must equal the share of the requested terminal current entering through that
cell's terminal boundary edges (zero elsewhere); the total through each terminal
must equal the requested current converted with CODATA-based scales (vt/ref/units.py).
Offline: the same check on every frame of the HDF5 file (read with h5py).
Acceptance: every generated balanced assignment must be accepted by tdgl.solve."""
import numpy as np

from .. import simmon, zoo
from . import _simcases as S

RULE = (
    "case = one simulation (device with 2/3/4 terminals, optional hole, mesh density, applied field in "
    "{zero, uniform, ramped, oscillating}, balanced currents in {integers, non-representable decimals, "
    "time-dependent callable}, screening on/off, adaptive on/off, unit system); monitors evaluate every "
    "cell at every update return and every saved frame. non-trivial = run with non-zero injected "
    "current in which >= 10 states were checked; distinct = distinct simulation spec"
)
REQUIRED_COUNTERS = ["cell_balance_checks", "terminal_total_checks", "states_with_injection", "frames_checked", "accepted_balanced_assignments", "terminal_membership_checks", "remeshed_device_runs"]
CASE_TIMEOUT = {"quick": 600, "thorough": 1500}
ASSUMPTIONS = [
    "terminal membership of boundary edges is taken from Device.terminal_info() (verified independently in C07)",
    "dual edge lengths of the mesh are taken as given (C07)",
    "frame 0 (the initial condition, all currents zero) is an input, not a solver output, and is excluded",
]


def gen_cases(tier, seed):
    rng = np.random.default_rng(1_000 + seed)
    n = 16 if tier == "quick" else 240
    cases = []
    Akinds = ["zero", "uniform", "ramp", "osc", "uniform_float"]
    Ikinds = ["integers", "decimal", "callable", "const", "pulse", "switch"]
    unit_sets = [("um", "mT", "uA"), ("nm", "uT", "nA"), ("mm", "T", "mA"), ("um", "uT", "mA"), ("nm", "mT", "uA"), ("um", "uT", "uA")]
    for k in range(n):
        nt = [2, 3, 4][k % 3]
        nh = int(k % 4 == 1)
        scr = (k % 5 == 4)
        size = "tiny" if scr else str(rng.choice(["small", "small", "medium"] if tier == "quick" else ["small", "medium", "large"]))
        if scr:
            size = "tiny" if tier == "quick" else "small"
        dev = zoo.gen_device(rng, n_terminals=nt, n_holes=nh, probes=int(rng.choice([0, 2])), size=size)
        lu, fu, cu = unit_sets[(k // 3) % len(unit_sets)]
        if lu != "um":
            dev = zoo.scale_device_spec(dev, {"nm": 1e3, "mm": 1e-3}[lu], lu)
        adaptive = bool(k % 2)
        o = S.base_options(rng, adaptive=adaptive, steps=50 if scr else 110, screening=scr)
        o["field_units"], o["current_units"] = fu, cu
        o["terminal_psi"] = [0.0, 0.0, "none", 1.0][int(rng.integers(4))]
        Ak = Akinds[k % len(Akinds)]
        Ik = Ikinds[(k // 2) % len(Ikinds)]
        drive = {"A": S.field_spec(rng, dev, o, Ak), "currents": S.current_spec(rng, dev, o, Ik)}
        if rng.random() < 0.25:
            drive["epsilon"] = {"kind": str(rng.choice(["const", "spatial"])), "value": 0.7}
        case = {"device": dev, "options": o, "drive": drive, "monitors": ["charge"], "cost": 40 if scr else 6 + 4 * (size == "medium") + 30 * (size == "large")}
        if k % 6 == 3:
            # the same Device object is meshed, used, and meshed again with another density before the run
            case["remesh"] = {"factor": float(rng.choice([0.6, 1.5]))}
        if k % 7 == 2 and not scr:
            o["skip_time"] = 0.1 * o["solve_time"]
        if k % 8 == 5:
            case["solve_twice"] = True  # one TDGLSolver object, solve() called twice
        if drive["currents"].get("kind") == "switch" and len(dev["terminals"]) >= 3:
            # terminals that carry no current in a phase are simply not named by the function in that phase
            drive["currents"]["phases"] = [{nm: v for nm, v in ph.items() if v != 0.0} for ph in drive["currents"]["phases"]]
        if drive["currents"].get("kind") == "switch" and (k // 6) % 2 == 0:
            drive["currents"]["persistent"] = True  # the callable returns its own pre-built level dicts
        if drive["currents"].get("kind") in ("callable", "pulse", "switch") and not drive["currents"].get("persistent"):
            drive["currents"]["form"] = ["function", "partial", "method", "object"][(k // 2) % 4]  # every kind of callable is a callable
        if k % 8 in (1, 6) and not case.get("remesh"):
            # the Device object was solved before with other options (pinning toggled), optionally moved in place and back
            case["history"] = ["used", "used_moved"][(k // 8) % 2 if k % 8 == 1 else 1 - (k // 8) % 2]
        if k % 8 == 2 and not case.get("remesh"):
            case["history"] = "layer_edited"  # material parameters of the same Device object swept between solves
        if k % 8 == 4 and not case.get("remesh") and not case.get("history"):
            case["history"] = "used_shifted"  # solved, then moved in place for good: the run is made at the new place
            case["shift_frac"] = [0.23, 0.02][(k // 8) % 2]  # far / by a fraction of a contact's width
        cases.append(case)
    nweak = 3 if tier == "quick" else 16
    for k in range(nweak):
        # weak bias (1e-9 .. 1e-6 of the natural scale) with nothing else driving the film: the injected current IS the flow scale
        nt = [2, 3, 4][k % 3]
        dev = zoo.gen_device(rng, n_terminals=nt, n_holes=0, probes=0, size="small")
        o = S.base_options(rng, adaptive=bool(k % 2), steps=60)
        o["terminal_psi"] = 0.0
        drive = {"A": {"kind": "zero"}, "currents": S.current_spec(rng, dev, o, ["stair", "const", "switch"][k % 3], strength=float([1e-6, 1e-9, 1e-7][k % 3]))}
        if k % 3 == 2:
            drive["currents"]["phases"] = [{nm: v for nm, v in ph.items() if v != 0.0} for ph in drive["currents"]["phases"]]  # unnamed = no current
        if k % 3 == 0:
            drive["currents"]["persistent"] = True
        cases.append({"device": dev, "options": o, "drive": drive, "monitors": ["charge"], "weak": True, "cost": 8})
    for k in range(2 if tier == "quick" else 10):
        # a contact on the rim of a HOLE (Corbino disk): the current enters through hole edges and leaves through the outer rim
        dev = zoo.gen_corbino(rng, size="small")
        o = S.base_options(rng, adaptive=bool(k % 2), steps=60)
        o["terminal_psi"] = [0.0, "none"][(k // 2) % 2]
        drive = {"A": S.field_spec(rng, dev, o, ["zero", "uniform"][k % 2], b=0.15), "currents": S.current_spec(rng, dev, o, ["const", "callable"][(k // 2) % 2], strength=0.1)}
        cases.append({"device": dev, "options": o, "drive": drive, "monitors": ["charge"], "corbino": True, "cost": 8})
    return cases


def _frames_check(out):
    """Offline: every frame of the output file, read with h5py."""
    import h5py

    rr, mon = out["rr"], out["mons"]["charge"]
    C = out["counters"]
    C.setdefault("frames_checked", 0)
    path = rr.output_path
    if path is None or mon.geo is None:
        return
    try:
        f = h5py.File(path, "r")
    except OSError:
        return
    with f:
        if "data" not in f:
            return
        for key in f["data"]:
            g = f["data"][key]
            step = int(g.attrs["step"])
            if step == 0 or "supercurrent" not in g:
                continue
            J = np.array(g["supercurrent"]) + np.array(g["normal_current"])
            hj = simmon.h(np.array(g["psi"]))
            t = out["_time_of_psi"].get(hj)
            if t is None:
                C["frames_unmatched"] = C.get("frames_unmatched", 0) + 1
                continue
            mon.check_state(J, t, {"frame": int(key), "step": step}, psi=np.array(g["psi"]), mu=np.array(g["mu"]))
            C["frames_checked"] += 1


class _TimeIndex:
    """maps hash(psi returned by update) -> time at which that update evaluated the currents"""

    def __init__(self):
        self.m = {}

    def on_update_end(self, ctx, res, exc):
        if res is not None:
            self.m[simmon.h(np.asarray(res.psi))] = ctx["time"]


def run_case(spec):
    ti = _TimeIndex()

    def post(out):
        rr = out["rr"]
        mon = out["mons"]["charge"]
        out["_time_of_psi"] = ti.m
        nV = len(mon.V)
        _frames_check(out)
        out.pop("_time_of_psi")
        out["violations"] = out["violations"] + mon.V[nV:]
        for k in ("cell_balance_checks", "terminal_total_checks", "states_checked", "states_with_injection", "terminal_membership_checks"):
            out["counters"][k] = mon.C.get(k, 0)
        exc = rr.exception
        cur = spec["drive"].get("currents", {})
        if exc is None:
            out["counters"]["accepted_balanced_assignments"] = 1
        elif isinstance(exc, ValueError) and "sum of all terminal currents" in str(exc):
            vals = cur.get("values", {})
            out["violations"].append({
                "kind": "balanced_currents_rejected", "mechanism": "balanced_currents_rejected_exact_zero_test",
                "detail": {"currents": vals, "kind": cur.get("kind"), "float_sum": float(sum(vals.values())), "error": str(exc)[:160],
                           "units": [spec["device"].get("length_units"), spec["options"].get("current_units")]}})
        elif isinstance(exc, RuntimeError) and ("failed to converge" in str(exc)):
            out["counters"]["runs_ending_in_nonconvergence"] = 1
        elif isinstance(exc, ValueError) and "terminal" in str(exc).lower() and cur.get("kind", "none") != "none":
            # every generated assignment is balanced and names only terminals of the device (terminals that carry nothing may be
            # left out by a callable): any rejection of it is a refusal of a well-posed problem
            out["violations"].append({
                "kind": "balanced_currents_rejected", "mechanism": "balanced_currents_rejected",
                "detail": {"kind": cur.get("kind"), "error": str(exc)[:200], "terminals": [t["name"] for t in spec["device"].get("terminals", [])],
                           "first_phase": (cur.get("phases") or [cur.get("values")])[0]}})
        else:
            out["status"] = "harness_error"
            out["error"] = "unexpected exception in C01 workload: " + repr(exc)[:300]

    kw = {}
    if spec.get("remesh"):
        dev, why = zoo.try_build_device(spec["device"])
        if dev is None:
            return {"violations": [], "counters": {"refused_mesh": 1}, "classes": ["refused"], "nontrivial": False}
        _ = dev.terminal_info()  # used once with the first mesh
        m = spec["device"]["mesh"]
        try:
            dev.make_mesh(max_edge_length=m["max_edge_length"] * spec["remesh"]["factor"], smooth=m.get("smooth", 0))
        except ValueError as exc:
            if "Malformed Voronoi" in str(exc):
                return {"violations": [], "counters": {"refused_mesh": 1}, "classes": ["refused"], "nontrivial": False}
            raise
        kw["device"] = dev
    out = S.run_sim_case(spec, "C01", extra_listeners=[ti], post=post, **kw)
    if spec.get("remesh"):
        out.setdefault("counters", {})["remeshed_device_runs"] = 1
    if "classes" not in out:
        out["classes"] = S.classes_of(spec) + (["remeshed"] if spec.get("remesh") else []) + (["thermalised"] if spec["options"].get("skip_time") else []) + (["solve_twice"] if spec.get("solve_twice") else []) + (["weak_bias"] if spec.get("weak") else []) + (["callable_form=" + spec["drive"]["currents"]["form"]] if spec["drive"].get("currents", {}).get("form") else [])
    out["nontrivial"] = out["counters"].get("states_with_injection", 0) >= 10
    return out
