"""C04 Observables are invariant under gauge transformations.

L1 (operator level): for random site functions chi, vector potentials A and order
parameters psi, with A'.e_ij = A.e_ij + chi_j - chi_i, the real builders must satisfy
L_A' = D L_A D^-1, G_A'(D psi) = D_i G_A psi (D = diag exp(i chi)... see below for the
sign convention fixed by the link variable exp(-i A.e)), and the supercurrent on every
edge is unchanged - with and without pinned rows, through build_* and through a live
MeshOperators refreshed in place.
L2 (run level, differential): pairs of full runs whose applied potential differs by a
constant vector c (a user Parameter returning A + c); the partner's initial state is the
gauge image psi_init * exp(i chi), chi = A_scale c.r. Every update return is compared:
|psi|, supercurrent, normal current, mu - mean(mu), psi modulo the gauge phase and one
global phase; dt sequences must coincide."""
import copy

import numpy as np
import scipy.sparse as sp

from .. import meshzoo, sim, simmon, zoo
from ..ref import fv
from . import _simcases as S

RULE = (
    "L1 case = one mesh (device, hex, Delaunay, annulus) x several (chi, A, psi) draws with |chi| up to 50 and A over 3 decades, "
    "pin sets none/fixed; L2 case = one pair of runs (with/without terminals and bias, screening on/off, fixed/adaptive, static or "
    "time-dependent uniform field) related by a constant shift of the vector potential of 0.3-30 x max|A|. non-trivial = all "
    "operator clauses evaluated (L1) / >= 20 update returns compared (L2); distinct = distinct spec"
)
REQUIRED_COUNTERS = ["laplacian_covariance_checks", "gradient_covariance_checks", "supercurrent_invariance_checks", "live_operator_checks", "zero_potential_checks", "run_pairs", "run_steps_compared"]
CASE_TIMEOUT = {"quick": 900, "thorough": 2400}
ASSUMPTIONS = ["run-level comparison tolerates rounding amplified by the dynamics: gate 1e-7 relative on runs of <= 300 steps (measured 1e-14..1e-10)",
               "sign convention: link variable U_ij = exp(-i A.e_ij), so psi -> psi exp(+i chi) accompanies A.e -> A.e + (chi_j - chi_i)"]


def gen_cases(tier, seed):
    rng = np.random.default_rng(4_000 + seed)
    nm = 8 if tier == "quick" else 100
    cases = []
    for s in meshzoo.gen_mesh_specs(rng, nm, max_sites=250 if tier == "quick" else 800, include_explicit=False):
        cases.append({"layer": "L1", "mesh": s, "ndraw": 5 if tier == "quick" else 20, "seed": int(rng.integers(1 << 30)), "cost": 3})
    for j in range(2 if tier == "quick" else 8):
        # structured meshes with exactly zero dual edge lengths (squares split into right triangles): the supercurrent on such an
        # edge is as covariant as on any other
        cases.append({"layer": "L1", "mesh": {"kind": "explicit", "base": {"kind": "grid", "nx": int(rng.integers(4, 8)), "ny": int(rng.integers(4, 7))}, "decades": 2,
                                              "zero_duals": float(rng.choice([0.15, 0.3])), "seed": int(rng.integers(1 << 30))},
                      "ndraw": 5 if tier == "quick" else 20, "seed": int(rng.integers(1 << 30)), "cost": 3})
    for j in range(1 if tier == "quick" else 3):
        # one mesh with more than 2^15 edges: covariance of the operators IN USE (refreshed in place) under a non-uniform chi
        cases.append({"layer": "L1large", "nx": int([112, 130, 150][j]), "ny": int([110, 125, 140][j]), "seed": int(rng.integers(1 << 30)), "cost": 30})
    npairs = 4 if tier == "quick" else 60
    for k in range(npairs):
        scr = (k % 4 == 3)
        nt = int([0, 2, 2, 0][k % 4])
        dev = zoo.gen_device(rng, n_terminals=nt, n_holes=int(nt == 0 and k % 2), probes=0, size="tiny" if scr else "small", smooth=0,
                             gamma=float(rng.choice([0.0, 1.0, 10.0])))
        if scr:
            dev["layer"]["lam"], dev["layer"]["d"] = 2.0, 0.1
        adaptive = bool(k % 2)
        o = S.base_options(rng, adaptive=adaptive, steps=30 if scr else 150, screening=scr)
        o["dt_max"] = 0.02
        o["dt_init"] = min(o["dt_init"], 5e-3)
        if not adaptive:
            o.update(dt_init=4e-3, solve_time=0.6 if not scr else 0.1)
        else:
            o["solve_time"] = 1.5 if not scr else 0.3
        if scr:
            o["screening_tolerance"] = 1e-6  # tight, so that iteration counts do not dominate the difference
            o["max_iterations_per_step"] = 5000
        o["terminal_psi"] = [0.0, "none", 0.0][k % 3]
        sc = S._scales(dev, o)
        B = float(rng.choice([0.15, 0.35])) * sc.Bc2 / sc.fu
        W = dev["film"].get("w", 4.0)
        Amax = B * W / 2
        c = (rng.normal(size=2) * Amax * float(rng.choice([0.3, 3.0, 30.0]))).tolist()
        td = bool(k % 3 == 2) or (k % 4 == 1)
        cases.append({"layer": "L2", "device": dev, "options": o, "B": B, "c": c, "time_dependent": td, "pulse": bool(k % 4 == 1),
                      "currents": S.current_spec(rng, dev, o, "const" if nt and k % 2 == 0 else "none", strength=0.15), "cost": 60 if scr else 20})
    for k in range(2 if tier == "quick" else 6):
        # both solver objects constructed before either is solved (static potentials: nothing rewrites the link variables later)
        nt = int([2, 0][k % 2])
        dev = zoo.gen_device(rng, n_terminals=nt, n_holes=0, probes=0, size="small", smooth=0, gamma=float([1.0, 10.0][k % 2]))
        o = S.base_options(rng, adaptive=bool(k % 2), steps=100)
        o["terminal_psi"] = [0.0, "none"][k % 2]
        sc = S._scales(dev, o)
        B = 0.3 * sc.Bc2 / sc.fu
        Amax = B * dev["film"].get("w", 4.0) / 2
        c = (np.array([0.8, -0.6]) * Amax * float([3.0, 0.5][k % 2])).tolist()
        cases.append({"layer": "L2", "device": dev, "options": o, "B": B, "c": c, "time_dependent": False, "pulse": False, "together": True,
                      "currents": S.current_spec(rng, dev, o, "const" if nt else "none", strength=0.15), "cost": 20})
    for k in range(1 if tier == "quick" else 4):
        # transport current with screening in ZERO applied field: the potential is exactly zero in one gauge and a constant in the
        # other; the self-field of the current is screened in both
        dev = zoo.gen_device(rng, n_terminals=2, n_holes=0, probes=0, size="tiny", smooth=0, gamma=float([1.0, 10.0][k % 2]))
        dev["layer"]["lam"], dev["layer"]["d"] = 2.0, 0.1
        o = S.base_options(rng, adaptive=bool(k % 2), steps=30, screening=True)
        o.update(dt_max=0.02, dt_init=min(o["dt_init"], 5e-3), screening_tolerance=1e-6, max_iterations_per_step=5000, terminal_psi=[0.0, "none"][k % 2])
        if not o["adaptive"]:
            o.update(dt_init=4e-3, solve_time=0.1)
        else:
            o["solve_time"] = 0.3
        sc = S._scales(dev, o)
        Aref = 0.3 * sc.Bc2 / sc.fu * dev["film"].get("w", 4.0) / 2
        c = (np.array([0.6, 0.8]) * Aref * float([1.0, 10.0][(k // 2) % 2])).tolist()
        cases.append({"layer": "L2", "device": dev, "options": o, "B": 0.0, "c": c, "time_dependent": False, "pulse": False, "zero_field_bias": True,
                      "currents": S.current_spec(rng, dev, o, "const", strength=0.4), "cost": 60})
    nvar = 3 if tier == "quick" else 12
    for k in range(nvar):
        # variants of the run-level pair: the device went through a file (saved and re-loaded) before both runs; or both runs CONTINUE
        # a first part (seed solution; the partner's seed is the gauge image of the same state, its recorded A stays in the old gauge)
        variant = ["reload", "seeded_static", "seeded_td"][k % 3]
        nt = [0, 2, 2][k % 3]
        dev = zoo.gen_device(rng, n_terminals=nt, n_holes=0, probes=0, size="small", smooth=0, gamma=float(rng.choice([1.0, 10.0])))
        o = S.base_options(rng, adaptive=bool(k % 2), steps=150)
        o.update(dt_max=0.02, dt_init=4e-3, solve_time=0.6, terminal_psi=0.0)
        sc = S._scales(dev, o)
        B = 0.3 * sc.Bc2 / sc.fu
        Amax = B * dev["film"].get("w", 4.0) / 2
        ang = float(rng.uniform(0, 2 * np.pi))
        c = [Amax * 3.0 * np.cos(ang), Amax * 3.0 * np.sin(ang)]
        cases.append({"layer": "L2", "device": dev, "options": o, "B": B, "c": c, "time_dependent": variant == "seeded_td", "pulse": False, "variant": variant,
                      "currents": S.current_spec(rng, dev, o, "const" if nt else "none", strength=0.15), "cost": 25})
    for k in range(2 if tier == "quick" else 6):
        # the gauge offset is written as a SUM of Parameters (time-dependent potential + constant shift); thermalisation first,
        # so that the clock restarts and times repeat within one solve()
        nt = [0, 2][k % 2]
        dev = zoo.gen_device(rng, n_terminals=nt, n_holes=0, probes=0, size="small", smooth=0, gamma=float(rng.choice([1.0, 10.0])))
        o = S.base_options(rng, adaptive=False, steps=150)
        o.update(dt_max=0.02, dt_init=4e-3, solve_time=0.6, terminal_psi=0.0, adaptive=False)
        sc = S._scales(dev, o)
        B = 0.3 * sc.Bc2 / sc.fu
        Amax = B * dev["film"].get("w", 4.0) / 2
        ang = float(rng.uniform(0, 2 * np.pi))
        c = [Amax * 3.0 * np.cos(ang), Amax * 3.0 * np.sin(ang)]
        cases.append({"layer": "L2", "device": dev, "options": o, "B": B, "c": c, "time_dependent": True, "pulse": False, "variant": "parameter_sum", "therm": True,
                      "currents": S.current_spec(rng, dev, o, "const" if nt else "none", strength=0.15), "cost": 25})
    nslow = 2 if tier == "quick" else 12
    for k in range(nslow):
        # slowly creeping field, offset much larger than A itself: the per-step change of A is tiny relative to |A + c|
        nt = [0, 2][k % 2]
        dev = zoo.gen_device(rng, n_terminals=nt, n_holes=0, probes=0, size="small", smooth=0, gamma=float(rng.choice([0.0, 1.0, 10.0])))
        o = S.base_options(rng, adaptive=bool(k % 2), steps=150)
        o.update(dt_max=0.02, dt_init=4e-3, solve_time=0.6, terminal_psi=0.0)
        sc = S._scales(dev, o)
        B = 0.3 * sc.Bc2 / sc.fu
        Amax = B * dev["film"].get("w", 4.0) / 2
        ang = float(rng.uniform(0, 2 * np.pi))
        fac = [300.0, 3000.0, 1000.0][k % 3]
        c = [Amax * fac * np.cos(ang), Amax * fac * np.sin(ang)]
        cases.append({"layer": "L2", "device": dev, "options": o, "B": B, "c": c, "time_dependent": True, "pulse": False, "slow": True,
                      "currents": S.current_spec(rng, dev, o, "const" if nt else "none", strength=0.15), "cost": 20})
    return cases


def _l1(spec):
    from tdgl.finite_volume import operators as ops
    from tdgl.finite_volume.operators import MeshOperators
    from tdgl.solver.options import SparseSolver

    rng = np.random.default_rng(spec["seed"])
    mesh, info = meshzoo.build_mesh(spec["mesh"])
    if mesh is None:
        return {"violations": [], "counters": {"refused_mesh": 1}, "classes": ["refused"], "nontrivial": False}
    em = mesh.edge_mesh
    n, m = len(mesh.sites), len(em.edges)
    e0, e1 = em.edges[:, 0], em.edges[:, 1]
    V, C, W = [], {}, {}

    def cnt(k, q=1):
        C[k] = C.get(k, 0) + q

    def viol(kind, detail):
        if len(V) < 8:
            V.append({"kind": kind, "mechanism": kind, "detail": detail})

    b = mesh.boundary_indices
    fixed_sets = [None, np.sort(rng.choice(b, size=max(2, len(b) // 5), replace=False)).astype(np.int64)]
    # a vector potential on edges is represented by any A_k with A_k . e_k = a_k; chi enters through a_k -> a_k + chi_j - chi_i
    d2 = np.sum(em.directions**2, axis=1)
    for draw in range(spec["ndraw"]):
        A = rng.normal(size=(m, 2)) * 10.0 ** rng.uniform(-2, 1)
        chi = rng.normal(size=n) * float(rng.choice([0.1, 3.0, 50.0]))
        dchi = chi[e1] - chi[e0]
        A2 = A + (dchi / d2)[:, None] * em.directions
        psi = (rng.normal(size=n) + 1j * rng.normal(size=n)) * rng.uniform(0.1, 1.5)
        g = np.exp(1j * chi)  # gauge factor accompanying A.e -> A.e + chi_j - chi_i with U = exp(-iA.e):  U'_ij g_j = g_i U_ij
        psi2 = g * psi
        for fixed in fixed_sets:
            LA, _ = ops.build_laplacian(mesh, link_exponents=A, fixed_sites=fixed)
            LB, _ = ops.build_laplacian(mesh, link_exponents=A2, fixed_sites=fixed)
            LA = sp.csr_matrix(LA); LB = sp.csr_matrix(LB)
            # L_A' = D L_A D^-1 with D = diag(g)  (pinned identity rows are invariant as well)
            want = sp.diags(g) @ LA @ sp.diags(1 / g)
            d = fv.max_abs_diff(LB, want) / abs(LA).max()
            cnt("laplacian_covariance_checks")
            W["laplacian"] = max(W.get("laplacian", 0), d / 1e-11)
            if d > 1e-11:
                viol("laplacian_not_covariant", {"rel": d, "pinned": fixed is not None})
            # action form: L_A'(g psi) = g L_A psi
            d = float(np.max(np.abs(LB @ psi2 - g * (LA @ psi))) / (np.max(np.abs(LA @ psi)) + 1e-300))
            if d > 1e-10:
                viol("laplacian_action_not_covariant", {"rel": d, "pinned": fixed is not None})
        GA = ops.build_gradient(mesh, link_exponents=A)
        GB = ops.build_gradient(mesh, link_exponents=A2)
        lhs = GB @ psi2
        rhs = g[e0] * (GA @ psi)
        d = float(np.max(np.abs(lhs - rhs)) / (np.max(np.abs(rhs)) + 1e-300))
        cnt("gradient_covariance_checks")
        W["gradient"] = max(W.get("gradient", 0), d / 1e-10)
        if d > 1e-10:
            viol("gradient_not_covariant", {"rel": d})
        # supercurrent through a live MeshOperators, refreshed in place from A to A'
        for fixed in fixed_sets:
            mo = MeshOperators(mesh, SparseSolver.SUPERLU, fixed_sites=fixed, fix_psi=fixed is not None)
            mo.build_operators()
            mo.set_link_exponents(A)
            J1 = mo.get_supercurrent(psi)
            mo.set_link_exponents(A2)  # in-place refresh path
            J2 = mo.get_supercurrent(psi2)
            # the refreshed LIVE Laplacian must be the gauge transform of a Laplacian built for A
            Llive = sp.csr_matrix(mo.psi_laplacian)
            LA_f, _ = ops.build_laplacian(mesh, link_exponents=A, fixed_sites=fixed)
            want_live = sp.diags(g) @ sp.csr_matrix(LA_f) @ sp.diags(1 / g)
            dlive = fv.max_abs_diff(Llive, want_live) / abs(want_live).max()
            if dlive > 1e-11:
                viol("laplacian_not_covariant", {"which": "live_after_refresh", "rel": dlive, "pinned": fixed is not None})
            # caller re-uses one buffer for the exponents and transforms it in place between the calls
            buf = np.array(A, copy=True)
            mo3 = MeshOperators(mesh, SparseSolver.SUPERLU, fixed_sites=fixed, fix_psi=fixed is not None)
            mo3.build_operators()
            mo3.set_link_exponents(buf)
            buf += (dchi / d2)[:, None] * em.directions
            mo3.set_link_exponents(buf)
            Jb = mo3.get_supercurrent(psi2)
            cnt("shared_buffer_checks")
            db = float(np.max(np.abs(Jb - fv.supercurrent(psi, em.edges, em.edge_lengths, em.directions, A)))) / (float(np.max(np.abs(J1))) + 1e-300)
            if db > 1e-10:
                viol("supercurrent_not_gauge_invariant", {"which": "same_buffer_transformed_in_place", "rel": db, "pinned": fixed is not None})
            # there and back again: A -> A' -> A on the same operators ends with the operators of A
            mo3.set_link_exponents(np.array(A, copy=True))
            Jback = mo3.get_supercurrent(psi)
            cnt("there_and_back_checks")
            dbk = float(np.max(np.abs(Jback - fv.supercurrent(psi, em.edges, em.edge_lengths, em.directions, A)))) / (float(np.max(np.abs(J1))) + 1e-300)
            dLb = fv.max_abs_diff(sp.csr_matrix(mo3.psi_laplacian), sp.csr_matrix(LA_f)) / abs(sp.csr_matrix(LA_f)).max()
            if dbk > 1e-10 or dLb > 1e-11:
                viol("supercurrent_not_gauge_invariant", {"which": "gauge_change_and_its_inverse_on_the_same_operators", "rel": dbk, "laplacian_rel": dLb, "pinned": fixed is not None})
            mo2 = MeshOperators(mesh, SparseSolver.SUPERLU, fixed_sites=fixed, fix_psi=fixed is not None)
            mo2.build_operators()
            mo2.set_link_exponents(A2)
            J3 = mo2.get_supercurrent(psi2)
            Jref = fv.supercurrent(psi, em.edges, em.edge_lengths, em.directions, A)
            sc = float(np.max(np.abs(Jref))) + 1e-300
            cnt("supercurrent_invariance_checks")
            cnt("live_operator_checks")
            for name, J in (("refreshed", J2), ("fresh", J3), ("original", J1)):
                d = float(np.max(np.abs(J - Jref))) / sc
                W["supercurrent"] = max(W.get("supercurrent", 0), d / 1e-10)
                if d > 1e-10:
                    viol("supercurrent_not_gauge_invariant", {"which": name, "rel": d, "pinned": fixed is not None})
            if not np.isrealobj(J2):
                viol("supercurrent_not_real", {})
            # an order parameter WITHOUT a phase, handed over as a real-typed array (np.ones, an array of amplitudes): its current in
            # the potential A' is that of the complex array with the same values, and equals the current of (A, psi / g) = ...
            amp = np.abs(psi) + 0.1  # float64
            cnt("real_typed_order_parameter_checks")
            Jr = np.asarray(mo2.get_supercurrent(amp))
            Jr_ref = fv.supercurrent(amp.astype(complex), em.edges, em.edge_lengths, em.directions, A2)
            dr = float(np.max(np.abs(Jr - Jr_ref))) / (float(np.max(np.abs(Jr_ref))) + 1e-300)
            if dr > 1e-10:
                viol("supercurrent_not_gauge_invariant", {"which": "real-typed order parameter in a non-zero potential", "rel": dr, "pinned": fixed is not None})
            # pure-gauge potential vs exactly zero potential, through the in-place refresh path:
            # (A = grad chi, g psi) is gauge equivalent to (A = 0, psi)
            Apure = (dchi / d2)[:, None] * em.directions
            mo.set_link_exponents(Apure)
            Jp = mo.get_supercurrent(psi2)
            mo.set_link_exponents(np.zeros((m, 2)))
            Jz = mo.get_supercurrent(psi)
            J0 = fv.supercurrent(psi, em.edges, em.edge_lengths, em.directions, None)
            s0 = float(np.max(np.abs(J0))) + 1e-300
            cnt("zero_potential_checks")
            for name, J in (("pure_gauge", Jp), ("refreshed_to_exact_zero", Jz)):
                d = float(np.max(np.abs(J - J0))) / s0
                if d > 1e-10:
                    viol("supercurrent_not_gauge_invariant", {"which": name, "rel": d, "pinned": fixed is not None})
            Lz = sp.csr_matrix(mo.psi_laplacian)
            Lz_ref, _ = ops.build_laplacian(mesh, link_exponents=np.zeros((m, 2)), fixed_sites=fixed)
            if fv.max_abs_diff(Lz, Lz_ref) > 1e-12 * abs(Lz_ref).max():
                viol("laplacian_not_covariant", {"which": "refreshed_to_exact_zero", "pinned": fixed is not None})
    need = ["laplacian_covariance_checks", "gradient_covariance_checks", "supercurrent_invariance_checks", "live_operator_checks"]
    return {"violations": V, "counters": C, "worst": W, "classes": ["L1/" + spec["mesh"]["kind"]], "nontrivial": all(C.get(k) for k in need),
            "sample": {"sites": n, "edges": m, "draws": spec["ndraw"], "worst_over_gate": W}}


# user-level vector potentials (module level so that they are ordinary Parameters)
def _uniform_shifted(x, y, z, *, B, cx, cy):
    x = np.atleast_1d(x); y = np.atleast_1d(y)
    return np.stack([-B * y / 2 + cx, B * x / 2 + cy, np.zeros_like(x)], axis=1)


def _uniform_shifted_td(x, y, z, *, t, B, cx, cy, T, pulse=False, slow=False):
    x = np.atleast_1d(x); y = np.atleast_1d(y)
    f = min(1.0, t / T) if T > 0 else 1.0
    if slow:
        # a field that creeps up by 2 % only: per-step increments of A far below |c|
        f = 1.0 + 0.02 * f
    if pulse:
        # ramp up, ramp down, then exactly zero field (in the unshifted gauge A returns to exactly 0)
        f = max(0.0, 1.0 - abs(t / T - 1.0)) if T > 0 else 0.0
    return np.stack([-f * B * y / 2 + cx, f * B * x / 2 + cy, np.zeros_like(x)], axis=1)


def _const_shift(x, y, z, *, cx, cy):
    x = np.atleast_1d(x)
    return np.stack([cx + 0 * x, cy + 0 * x, np.zeros_like(x)], axis=1)


def _make_closure_potential(B, cx, cy):
    """Static uniform-field potential whose gauge offset lives in a closure (not in the Parameter's kwargs)."""
    def A(x, y, z):
        x = np.atleast_1d(x); y = np.atleast_1d(y)
        return np.stack([-B * y / 2 + cx, B * x / 2 + cy, np.zeros_like(x)], axis=1)
    return A


class _Keep(simmon.Base):
    def __init__(self):
        super().__init__()
        self.ups = []

    def on_update_end(self, ctx, res, exc):
        if res is not None:
            self.ups.append(dict(dt=float(res.dt), psi=np.array(res.psi), mu=np.array(res.mu), js=np.array(res.supercurrent), jn=np.array(res.normal_current),
                                 Ai=np.array(res.A_induced), iters=ctx["screen_iters"], refusals=ctx["refusals"]))


def _l2(spec):
    import tdgl

    dev, why = zoo.try_build_device(spec["device"])
    if dev is None:
        return {"violations": [], "counters": {"refused_mesh": 1}, "classes": ["refused"], "nontrivial": False}
    B, c = spec["B"], spec["c"]
    variant = spec.get("variant")
    if variant == "reload":
        import os
        import shutil
        import tempfile

        tmpd = tempfile.mkdtemp(prefix="vt_c04_")
        try:
            dev.to_hdf5(os.path.join(tmpd, "dev.h5"))
            dev = tdgl.Device.from_hdf5(os.path.join(tmpd, "dev.h5"))
        finally:
            shutil.rmtree(tmpd, ignore_errors=True)
    # keep the explicit scheme inside its linear stability bound (see C17): outside it rounding differences
    # between the two gauges are amplified exponentially and the comparison would not be sound
    import scipy.linalg as sla

    gm = simmon.MeshGeo(dev.mesh)
    L = fv.laplacian_fast(gm.n, gm.edges, gm.elen, gm.s, gm.areas, gm.dirs, None, None).toarray().real
    sq = 1 / np.sqrt(gm.areas)
    Ssym = (L * gm.areas[:, None]) * sq[:, None] * sq[None, :]
    lam = float(np.max(-sla.eigvalsh((Ssym + Ssym.T) / 2)))
    dt_star = 2 * dev.layer.u / (np.sqrt(1 + dev.layer.gamma**2) * lam)
    spec = copy.deepcopy(spec)
    o = spec["options"]
    nsteps = 40 if o.get("include_screening") else 150
    if o["adaptive"]:
        o["dt_max"] = 0.5 * dt_star
        o["dt_init"] = min(o["dt_init"], 0.1 * dt_star)
        o["solve_time"] = 0.6 * nsteps * o["dt_max"]
    else:
        o["dt_init"] = 0.4 * dt_star
        o["dt_max"] = max(o["dt_max"], o["dt_init"])
        o["solve_time"] = nsteps * o["dt_init"] - 0.5 * o["dt_init"]
    o.pop("auto_dt", None)
    if spec.get("therm"):
        o["skip_time"] = 0.4 * o["solve_time"]  # thermalisation: the solver's clock runs to skip_time, restarts at 0 and passes the same times again
    T = (0.3 if spec.get("pulse") else 0.5) * spec["options"]["solve_time"]
    runs = []
    seeded = variant in ("seeded_static", "seeded_td")
    first_path = first_dir = None
    if seeded:
        # first part of the history, in the unshifted gauge, written to a file; both runs below continue it
        import os
        import tempfile

        first_dir = tempfile.mkdtemp(prefix="vt_c04s_")
        o1 = dict(spec["options"], solve_time=0.4 * spec["options"]["solve_time"])
        opts1 = sim.build_options(o1, output_file=os.path.join(first_dir, "first.h5"))
        tc1 = sim.build_drive({"currents": spec["currents"]}, dev, opts1)[1]
        try:
            s1 = tdgl.solve(dev, opts1, applied_vector_potential=tdgl.Parameter(_make_closure_potential(float(B), 0.0, 0.0)), terminal_currents=tc1)
            first_path = s1.path
        except RuntimeError as e1:
            import shutil

            shutil.rmtree(first_dir, ignore_errors=True)
            if "singular" in str(e1) or "converge" in str(e1):
                return {"violations": [], "counters": {"refused_mesh": 1}, "classes": ["refused"], "nontrivial": False}
            raise
    pending = []
    for shift in ((0.0, 0.0), tuple(c)):
        if variant == "parameter_sum":
            avp = tdgl.Parameter(_uniform_shifted_td, B=float(B), cx=0.0, cy=0.0, T=float(T), pulse=False, slow=False, time_dependent=True) + tdgl.Parameter(_const_shift, cx=float(shift[0]), cy=float(shift[1]))
        elif variant == "seeded_static":
            avp = tdgl.Parameter(_make_closure_potential(float(B), float(shift[0]), float(shift[1])))  # the offset is held in a closure
        elif spec["time_dependent"]:
            avp = tdgl.Parameter(_uniform_shifted_td, B=float(B), cx=float(shift[0]), cy=float(shift[1]), T=float(T), pulse=bool(spec.get("pulse")), slow=bool(spec.get("slow")), time_dependent=True)
        else:
            avp = tdgl.Parameter(_uniform_shifted, B=float(B), cx=float(shift[0]), cy=float(shift[1]))
        keep = _Keep()
        opts = sim.build_options(spec["options"], output_file=None)
        tc = sim.build_drive({"currents": spec["currents"]}, dev, opts)[1]

        def pre(solver, shift=shift):
            # gauge image of the initial state: A -> A + c  <=>  chi(r) = A_scale c.r on dimensionless... sites are xi*mesh.sites
            r = solver.sites
            chi = solver.A_scale * (shift[0] * r[:, 0] + shift[1] * r[:, 1]) / dev.layer.coherence_length
            solver._vt_chi = chi
            solver.psi_init = solver.psi_init * np.exp(1j * chi)
            if solver.seed_solution is not None:
                # the gauge image of the saved state (its recorded vector potential stays what it was: the old gauge)
                sd = solver.seed_solution.tdgl_data
                sd.psi = np.asarray(sd.psi) * np.exp(1j * chi)

        from ..recorder import Recorder

        rec = Recorder([keep])
        exc = None
        if spec.get("together"):
            # BOTH solver objects exist before either of them runs (a user preparing a batch of runs on one device): the first
            # one is built here as well and solved only after the second one has been constructed
            if not pending:
                try:
                    solver = tdgl.TDGLSolver(dev, opts, applied_vector_potential=avp, terminal_currents=tc)
                    pre(solver)
                except Exception as e:  # noqa: BLE001
                    return {"status": "harness_error", "error": repr(e)[:300]} if not (isinstance(e, RuntimeError) and "singular" in str(e)) else {"violations": [], "counters": {"refused_mesh": 1}, "classes": ["refused"], "nontrivial": False}
                pending.append((solver, rec, keep))
                continue
            try:
                solver2 = tdgl.TDGLSolver(dev, opts, applied_vector_potential=avp, terminal_currents=tc)
                pre(solver2)
            except Exception as e:  # noqa: BLE001
                return {"status": "harness_error", "error": repr(e)[:300]}
            pending.append((solver2, rec, keep))
            for solver, rec_, keep_ in pending:
                with rec_:
                    try:
                        solver.solve()
                    except Exception as e:  # noqa: BLE001
                        exc = e
                if exc is not None:
                    break
                runs.append((keep_.ups, solver._vt_chi))
            if exc is None:
                continue
        else:
          with rec:
            try:
                seed = tdgl.Solution.from_hdf5(first_path) if seeded else None
                solver = tdgl.TDGLSolver(dev, opts, applied_vector_potential=avp, terminal_currents=tc, seed_solution=seed)
                pre(solver)
                solver.solve()
            except Exception as e:  # noqa: BLE001
                exc = e
        if exc is not None:
            if isinstance(exc, RuntimeError) and "singular" in str(exc):
                return {"violations": [], "counters": {"refused_mesh": 1}, "classes": ["refused"], "nontrivial": False}
            if isinstance(exc, RuntimeError) and "converge" in str(exc) and not runs:
                return {"violations": [], "counters": {"runs_ending_in_nonconvergence": 1}, "classes": ["nonconvergence"], "nontrivial": False}
            if runs:
                return {"violations": [{"kind": "shifted_run_fails", "mechanism": "gauge_shift_changes_outcome", "detail": {"c": c, "raised": repr(exc)[:200]}}],
                        "counters": {"run_pairs": 1}, "classes": ["L2"], "nontrivial": True}
            return {"status": "harness_error", "error": repr(exc)[:300]}
        runs.append((keep.ups, solver._vt_chi))
    if first_dir:
        import shutil

        shutil.rmtree(first_dir, ignore_errors=True)
    (a, _), (b, chi) = runs
    V, C, W = [], {"run_pairs": 1, "run_steps_compared": 0}, {}
    gate = 1e-7
    if spec["options"].get("include_screening"):
        # both runs iterate the induced potential to the same relative tolerance only
        gate = max(gate, 10 * spec["options"]["screening_tolerance"])
    if len(a) != len(b):
        V.append({"kind": "run_lengths_differ", "mechanism": "gauge_shift_changes_run", "detail": {"steps": [len(a), len(b)], "c": c}})
    g = np.exp(1j * chi)
    for i, (x, y) in enumerate(zip(a, b)):
        C["run_steps_compared"] += 1
        if x["dt"] != y["dt"]:
            if abs(x["dt"] - y["dt"]) > 1e-9 * x["dt"]:
                V.append({"kind": "dt_sequences_differ", "mechanism": "gauge_shift_changes_run", "detail": {"step": i, "dt": [x["dt"], y["dt"]], "c": c}})
                break
        errs = {}
        errs["abs_psi"] = float(np.max(np.abs(np.abs(x["psi"]) - np.abs(y["psi"]))))
        sj = float(np.max(np.abs(x["js"]))) + float(np.max(np.abs(x["jn"]))) + 1e-12
        errs["supercurrent"] = float(np.max(np.abs(x["js"] - y["js"]))) / max(sj, 1e-3)
        errs["normal_current"] = float(np.max(np.abs(x["jn"] - y["jn"]))) / max(sj, 1e-3)
        mx, my = x["mu"] - x["mu"].mean(), y["mu"] - y["mu"].mean()
        errs["mu"] = float(np.max(np.abs(mx - my))) / max(float(np.max(np.abs(mx))), 1e-3)
        # psi modulo the gauge phase and one global phase
        z = y["psi"] * np.conj(g)
        ov = np.vdot(x["psi"], z)
        ph = ov / abs(ov) if abs(ov) > 0 else 1.0
        errs["psi_mod_gauge"] = float(np.max(np.abs(x["psi"] - z * np.conj(ph))))
        errs["A_induced"] = float(np.max(np.abs(x["Ai"] - y["Ai"]))) / max(float(np.max(np.abs(x["Ai"]))), 1e-6) if np.any(x["Ai"]) else 0.0
        for k_, v_ in errs.items():
            W[k_] = max(W.get(k_, 0.0), v_ / gate)
        bad = {k_: v_ for k_, v_ in errs.items() if v_ > gate}
        if bad:
            V.append({"kind": "observable_changed_by_gauge_shift", "mechanism": "observable_changed_by_gauge_shift",
                      "detail": {"step": i, "errors": bad, "c": c, "screening_iterations": [x["iters"], y["iters"]], "refusals": [x["refusals"], y["refusals"]]}})
            break
    o = spec["options"]
    return {"violations": V, "counters": C, "worst": W,
            "classes": ["L2", "screening=" + str(bool(o.get("include_screening"))), "adaptive=" + str(o["adaptive"]), f"terminals={len(spec['device']['terminals'])}",
                        "I=" + spec["currents"]["kind"], "time_dependent=" + str(spec["time_dependent"]), "pulse=" + str(bool(spec.get("pulse"))), "slow=" + str(bool(spec.get("slow"))), "variant=" + str(spec.get("variant"))],
            "nontrivial": C["run_steps_compared"] >= 20, "sample": {"steps": len(a), "shift": c, "worst_over_gate": W}}


def _l1_large(spec):
    from tdgl.finite_volume.operators import MeshOperators
    from tdgl.solver.options import SparseSolver

    rng = np.random.default_rng(spec["seed"])
    mesh, info = meshzoo.build_mesh({"kind": "hex", "nx": spec["nx"], "ny": spec["ny"], "jitter": 0.05, "seed": spec["seed"]})
    if mesh is None:
        return {"violations": [], "counters": {"refused_mesh": 1}, "classes": ["refused"], "nontrivial": False}
    em = mesh.edge_mesh
    n, m = len(mesh.sites), len(em.edges)
    e0, e1 = em.edges[:, 0], em.edges[:, 1]
    d2 = np.sum(em.directions**2, axis=1)
    V, C = [], {"large_mesh_covariance_checks": 0}
    mo = MeshOperators(mesh, SparseSolver.SUPERLU, fixed_sites=None)
    try:
        mo.build_operators()
    except RuntimeError as exc:
        if "exactly singular" in str(exc):
            return {"violations": [], "counters": {"refused_mesh": 1}, "classes": ["refused"], "nontrivial": False}
        raise
    A = rng.normal(size=(m, 2))
    psi = (rng.normal(size=n) + 1j * rng.normal(size=n)) * 0.7
    mo.set_link_exponents(A)
    L1_ = sp.csr_matrix(mo.psi_laplacian).copy()
    lap1 = L1_ @ psi
    grad1 = mo.psi_gradient @ psi
    J1 = mo.get_supercurrent(psi)
    for amp in (3.0, 0.2):
        chi = rng.normal(size=n) * amp
        g = np.exp(1j * chi)
        A2 = A + ((chi[e1] - chi[e0]) / d2)[:, None] * em.directions
        mo.set_link_exponents(A2)  # in-place refresh of > 2^15 entries
        C["large_mesh_covariance_checks"] += 1
        dl = float(np.max(np.abs(mo.psi_laplacian @ (g * psi) - g * lap1)) / np.max(np.abs(lap1)))
        dg = float(np.max(np.abs(mo.psi_gradient @ (g * psi) - g[e0] * grad1)) / np.max(np.abs(grad1)))
        dj = float(np.max(np.abs(mo.get_supercurrent(g * psi) - J1)) / np.max(np.abs(J1)))
        if max(dl, dg, dj) > 1e-10:
            V.append({"kind": "laplacian_not_covariant" if dl > 1e-10 else ("gradient_not_covariant" if dg > 1e-10 else "supercurrent_not_gauge_invariant"),
                      "mechanism": "operators_in_use_not_covariant_on_large_mesh", "detail": {"edges": m, "laplacian_rel": dl, "gradient_rel": dg, "supercurrent_rel": dj}})
    return {"violations": V, "counters": C, "classes": ["L1/large_hex"], "nontrivial": C["large_mesh_covariance_checks"] > 0, "sample": {"sites": n, "edges": m}}


def run_case(spec):
    if spec["layer"] == "L1large":
        return _l1_large(spec)
    return _l1(spec) if spec["layer"] == "L1" else _l2(spec)
