"""C10 Refreshing link variables in place equals rebuilding the operators.

L1 (history monitor): for each mesh and pin set, sequences of vector potentials are
fed to one live MeshOperators through set_link_exponents; after EVERY call the live
psi_gradient / psi_laplacian must equal those of a fresh instance that only ever
saw the latest potential, and the independent reference assembly (vt/ref/fv.py).

L2 (in situ): during full simulations, at every solve_for_psi_squared call the
operator in use is compared with a reference build for the vector potential the
harness itself evaluates at the current time (see vt/simmon.py: OperatorFreshness)."""
import itertools

import numpy as np
import scipy.sparse as sp

from .. import meshzoo, zoo
from ..ref import fv

RULE = (
    "L1 case = (mesh, pin set in {none, terminal/boundary subset with fix_psi, same with fix_psi=False, "
    "empty}, batch of vector-potential sequences of length 1..6 over {zeros, A1, A2, 5*A1, repeat}); "
    "non-trivial = at least one refresh (second or later call) compared against a fresh build with a "
    "different potential than the previous call. L2 case = one full simulation with time-dependent "
    "applied potential and/or screening; non-trivial = operator compared at >= 10 steps after the "
    "potential moved. distinct = distinct case spec"
)
REQUIRED_COUNTERS = ["refresh_vs_fresh", "refresh_vs_reference"]
CASE_TIMEOUT = {"quick": 600, "thorough": 1800}
ASSUMPTIONS = ["a fresh MeshOperators build is the definition of 'built from scratch'; its own correctness is C03"]


def gen_cases(tier, seed):
    rng = np.random.default_rng(10_000 + seed)
    n_mesh = 10 if tier == "quick" else 60
    specs = meshzoo.gen_mesh_specs(rng, n_mesh, max_sites=250 if tier == "quick" else 700, include_explicit=False)
    for j in range(2 if tier == "quick" else 8):
        specs.append({"kind": "explicit", "base": {"kind": "grid", "nx": int(rng.integers(4, 8)), "ny": int(rng.integers(4, 7))}, "decades": 2,
                      "zero_duals": float(rng.choice([0.1, 0.3])), "seed": int(rng.integers(1 << 30))})
    cases = []
    for s in specs:
        for pin in ("none", "fixed", "fixed_nofix", "empty"):
            cases.append({"layer": "L1", "mesh": s, "pin": pin, "nseq": 30 if tier == "quick" else 80, "seed": int(rng.integers(1 << 30)), "cost": 2})
    for j in range(1 if tier == "quick" else 3):
        # one mesh with more than 2^15 edges (more than 2^16 stored entries are rewritten by every refresh)
        for pin in (("fixed",) if tier == "quick" else ("none", "fixed", "fixed_nofix")):
            cases.append({"layer": "L1", "mesh": {"kind": "hex", "nx": int([112, 130, 150][j]), "ny": int([110, 125, 140][j]), "jitter": 0.05, "seed": int(rng.integers(1 << 30))},
                          "pin": pin, "nseq": 0, "seqs": [[1, 2], [0, 1, 0], [2, 3, 1]], "seed": int(rng.integers(1 << 30)), "cost": 40})
    from . import _simcases

    cases += _simcases.c10_insitu_cases(tier, rng)
    return cases


def _sequences(rng, nseq):
    """Index sequences over symbols 0=zeros 1=A1 2=A2 3=5*A1; repeats allowed."""
    seqs = []
    # all sequences of length 1 and 2 exhaustively, longer ones sampled
    for L in (1, 2):
        seqs += [list(t) for t in itertools.product(range(4), repeat=L)]
    while len(seqs) < nseq:
        L = int(rng.integers(3, 7))
        s = [int(x) for x in rng.integers(0, 4, L)]
        if rng.random() < 0.4:  # force a repeat of an earlier one
            k = int(rng.integers(1, L))
            s[k] = s[int(rng.integers(0, k))]
        seqs.append(s)
    return seqs[: max(nseq, 20)]


def run_case(spec):
    if spec.get("layer") == "L2":
        from . import _simcases

        if spec.get("seed_from_screening"):
            import copy
            import shutil

            from .. import sim, zoo

            device, why = zoo.try_build_device(spec["device"])
            if device is None:
                return {"violations": [], "counters": {"refused_mesh": 1}, "classes": ["refused"], "nontrivial": False}
            pre = copy.deepcopy(spec)
            pre["options"].update(include_screening=True, screening_tolerance=1e-3, max_iterations_per_step=3000, output="file")
            pre["drive"] = dict(pre["drive"], A=dict(pre["drive"]["A"]))
            if pre["drive"]["A"].get("kind") == "ramp":
                pre["drive"]["A"] = {"kind": "uniform", "B": pre["drive"]["A"]["B"]}
            r0 = sim.run_sim(pre, [], device=device, keep_dir=True)
            if r0.refused or r0.exception is not None or r0.solution is None:
                shutil.rmtree(r0.outdir, ignore_errors=True) if getattr(r0, "outdir", None) else None
                return {"violations": [], "counters": {"seed_run_failed": 1}, "classes": ["seed_run_failed"], "nontrivial": False,
                        "sample": {"why": str(r0.refused or r0.exception)[:160]}}
            amax = float(np.max(np.abs(np.asarray(r0.solution.tdgl_data.induced_vector_potential))))
            out = _simcases.run_sim_case(spec, prop="C10", device=device, seed_solution=r0.solution)
            out.setdefault("counters", {})["seeded_from_screening_runs"] = 1
            out.setdefault("sample", {})["seed_max_abs_induced_potential"] = amax
            if amax == 0.0:
                out["nontrivial"] = False
            shutil.rmtree(r0.outdir, ignore_errors=True)
            return out
        return _simcases.run_sim_case(spec, prop="C10")
    from tdgl.finite_volume.operators import MeshOperators
    from tdgl.solver.options import SparseSolver

    rng = np.random.default_rng(spec["seed"])
    mesh, info = meshzoo.build_mesh(spec["mesh"])
    if mesh is None:
        return {"violations": [], "counters": {"refused_mesh": 1}, "classes": ["refused"], "nontrivial": False}
    em = mesh.edge_mesh
    n, m = len(mesh.sites), len(em.edges)
    pin = spec["pin"]
    if pin == "none":
        fixed, fix_psi = None, True
    elif pin == "empty":
        fixed, fix_psi = np.array([], dtype=np.int64), True
    else:
        dev = info.get("device") if isinstance(info, dict) else None
        if dev is not None and dev.terminals:
            fixed = np.concatenate([t.site_indices for t in dev.terminal_info()]).astype(np.int64)
        else:
            b = mesh.boundary_indices
            fixed = np.sort(rng.choice(b, size=max(2, len(b) // 4), replace=False)).astype(np.int64)
        fix_psi = pin == "fixed"
    A1 = rng.normal(size=(m, 2)) * 0.7
    A2 = rng.normal(size=(m, 2)) * 3.0
    sym = {0: np.zeros((m, 2)), 1: A1, 2: A2, 3: 5 * A1}

    def fresh(A):
        o = MeshOperators(mesh, SparseSolver.SUPERLU, fixed_sites=fixed, fix_psi=fix_psi)
        o.build_operators()
        o.set_link_exponents(A)
        return o

    ref_cache = {}

    def reference(k):
        if k not in ref_cache:
            fx = fixed if (fix_psi and fixed is not None) else None
            ref_cache[k] = (
                fv.gradient_fast(n, em.edges, em.edge_lengths, em.directions, sym[k]),
                fv.laplacian_fast(n, em.edges, em.edge_lengths, em.dual_edge_lengths, mesh.areas, em.directions, sym[k], fx),
            )
        return ref_cache[k]

    fresh_cache = {}
    V, C = [], {"refresh_vs_fresh": 0, "refresh_vs_reference": 0, "first_build_vs_reference": 0, "pattern": 0}
    changed_refreshes = 0
    worst = 0.0
    for seq in (spec.get("seqs") or _sequences(rng, spec["nseq"])):
        live = MeshOperators(mesh, SparseSolver.SUPERLU, fixed_sites=fixed, fix_psi=fix_psi)
        live.build_operators()
        for pos, k in enumerate(seq):
            live.set_link_exponents(sym[k].copy())
            if k not in fresh_cache:
                fresh_cache[k] = fresh(sym[k].copy())
            fr = fresh_cache[k]
            Gr, Lr = reference(k)
            for name, lm, fm, rm in (
                ("gradient", live.psi_gradient, fr.psi_gradient, Gr),
                ("laplacian", live.psi_laplacian, fr.psi_laplacian, Lr),
            ):
                scale = abs(rm).max()
                d1 = fv.max_abs_diff(lm, fm)
                d2 = fv.max_abs_diff(lm, rm)
                ctr = "refresh_vs_fresh" if pos else "first_build_vs_reference"
                C[ctr] += 1
                if pos:
                    C["refresh_vs_reference"] += 1
                worst = max(worst, d1 / scale, d2 / scale)
                if d1 > 1e-13 * scale:
                    V.append({"kind": f"live_{name}_ne_fresh", "mechanism": "stale_or_partial_refresh", "detail": {"sequence": seq, "position": pos, "max_abs_diff": d1, "scale": scale, "pin": pin}})
                if d2 > 1e-11 * scale:
                    V.append({"kind": f"live_{name}_ne_reference", "mechanism": "stale_or_partial_refresh" if pos else "build_ne_reference", "detail": {"sequence": seq, "position": pos, "max_abs_diff": d2, "scale": scale, "pin": pin}})
                C["pattern"] += 1
                if not fv.same_pattern(lm, fm):
                    V.append({"kind": f"live_{name}_pattern_differs", "mechanism": "sparsity_pattern_changed", "detail": {"sequence": seq, "position": pos, "pin": pin}})
            # pinned rows stay identity rows
            if fix_psi and fixed is not None and len(fixed):
                rows = sp.csr_matrix(live.psi_laplacian)[fixed]
                ident = sp.csr_matrix((np.ones(len(fixed)), (np.arange(len(fixed)), fixed)), shape=rows.shape)
                if fv.max_abs_diff(rows, ident) != 0:
                    V.append({"kind": "pinned_row_not_identity", "mechanism": "pinned_rows_overwritten", "detail": {"sequence": seq, "position": pos}})
            if pos and seq[pos] != seq[pos - 1]:
                changed_refreshes += 1
            if len(V) > 10:
                break
        if len(V) > 10:
            break
    # the caller keeps ONE buffer and overwrites it between the calls (set_link_exponents must not rely on identity)
    live = MeshOperators(mesh, SparseSolver.SUPERLU, fixed_sites=fixed, fix_psi=fix_psi)
    live.build_operators()
    buf = np.zeros((m, 2))
    for pos, k in enumerate([1, 2, 0, 3, 1]):
        buf[...] = sym[k]
        live.set_link_exponents(buf)
        Gr, Lr = reference(k)
        C["shared_buffer_checks"] = C.get("shared_buffer_checks", 0) + 1
        for name, lm, rm in (("gradient", live.psi_gradient, Gr), ("laplacian", live.psi_laplacian, Lr)):
            d2_ = fv.max_abs_diff(lm, rm)
            if d2_ > 1e-11 * abs(rm).max():
                V.append({"kind": f"live_{name}_ne_reference", "mechanism": "stale_or_partial_refresh", "detail": {"sequence": "same buffer overwritten: [1,2,0,3,1]", "position": pos, "max_abs_diff": d2_, "pin": pin}})
    # ANOTHER operator object in the same process whose matrices have the same shape and the same number of stored entries but
    # another pattern: one pinned site swapped for a free site of the same degree (nothing learnt from the first object's
    # matrices - positions of entries, orderings - applies to the second)
    if fix_psi and fixed is not None and len(fixed):
        deg = np.bincount(np.asarray(em.edges).ravel(), minlength=n)
        fset = set(int(x) for x in fixed)
        swap = None
        for a in fixed:
            cand = [int(b_) for b_ in np.flatnonzero(deg == deg[int(a)]) if int(b_) not in fset]
            if cand:
                swap = (int(a), cand[len(cand) // 2])
                break
        if swap is not None:
            fixed2 = np.sort(np.array([swap[1] if int(x) == swap[0] else int(x) for x in fixed], dtype=np.int64))
            live2 = MeshOperators(mesh, SparseSolver.SUPERLU, fixed_sites=fixed2, fix_psi=True)
            live2.build_operators()
            for pos, k in enumerate([1, 2, 0, 3, 2]):
                live2.set_link_exponents(sym[k].copy())
                Gr2 = fv.gradient_fast(n, em.edges, em.edge_lengths, em.directions, sym[k])
                Lr2 = fv.laplacian_fast(n, em.edges, em.edge_lengths, em.dual_edge_lengths, mesh.areas, em.directions, sym[k], fixed2)
                C["twin_pin_set_checks"] = C.get("twin_pin_set_checks", 0) + 1
                for name, lm, rm in (("gradient", live2.psi_gradient, Gr2), ("laplacian", live2.psi_laplacian, Lr2)):
                    d2_ = fv.max_abs_diff(lm, rm)
                    if d2_ > 1e-11 * abs(rm).max():
                        V.append({"kind": f"live_{name}_ne_reference", "mechanism": "stale_or_partial_refresh" if pos else "build_ne_reference",
                                  "detail": {"sequence": "second operator object, one pinned site swapped for a free one of equal degree: [1,2,0,3,2]", "position": pos, "max_abs_diff": d2_, "swap": list(swap), "pin": pin}})
    return {
        "violations": V[:10],
        "counters": C,
        "worst": {"rel_diff": worst},
        "classes": ["L1/" + spec["mesh"]["kind"], "pin=" + pin],
        "nontrivial": changed_refreshes > 0,
        "sample": {"sites": n, "edges": m, "pin": pin, "n_fixed": 0 if fixed is None else int(len(fixed)), "refreshes_with_changed_A": changed_refreshes, "worst_rel_diff": worst},
    }
