"""C16 Parameter arithmetic means pointwise arithmetic of its operands.

Differential monitor: expression trees are built twice - once with tdgl.Parameter
objects and Python operators (the code under test), once as plain nested tuples
evaluated by vt-side code that calls the raw leaf functions and combines values
with the operator module. Every enumerated tree is checked for value (scalar and
array arguments, with/without t), time_dependent flag, structural equality,
cache clearing, pickle round trip; a subset is handed to tdgl.solve."""
import itertools
import operator
import pickle

import numpy as np

OPS = {"+": operator.add, "-": operator.sub, "*": operator.mul, "/": operator.truediv, "**": operator.pow}
LEAVES = ["P2", "P3", "PT", "int", "float"]
SPECIAL = [1, 0.5, 3, 0.25]  # numbers that are neutral for some operator on one side (1 * x, x ** 1, x / 1) and not on the other (1 ** x, 1 / x)

RULE = (
    "cases = batches of expression trees over {+,-,*,/,**} and leaves {2-D Parameter, 3-D Parameter, "
    "time-dependent Parameter, int, float}: depth 1 exhaustive (both operand orders), depth 2 "
    "= op(depth-1 tree, leaf) and op(leaf, depth-1 tree) exhaustive plus sampled op(tree, tree), depth 3 sampled "
    "(quick) / much larger sample (thorough); plus solver-acceptance cases. A tree is non-trivial "
    "when it contains >= 1 Parameter leaf and all six checks ran; distinct = distinct tree text"
)
REQUIRED_COUNTERS = ["value_checks", "repeat_evaluation_checks", "flag_checks", "equality_checks", "clear_cache_checks", "pickle_checks", "solver_checks"]
CASE_TIMEOUT = {"quick": 600, "thorough": 3000}
EXHAUSTIVE = {"quick": False, "thorough": False}
ASSUMPTIONS = ["the raw leaf functions and Python's operator module define pointwise arithmetic"]


# leaf functions must be importable module-level functions (pickle)
def f2(x, y, sigma=1.0):
    return 0.5 + np.exp(-(x**2 + y**2) / (2 * sigma**2))


def f3(x, y, z, sigma=1.0):
    return 0.7 + np.exp(-(x**2 + y**2 + z**2) / (2 * sigma**2))


def ft(x, y, z, *, t, rate=1.0):
    return (1.2 + np.cos(x + y + z)) * (1.0 + 0.25 * np.sin(rate * t))


def _lookalike_f2():
    def f2(x, y, sigma=1.0):  # same name and signature as the module-level f2, different function
        return 0.25 + np.exp(-(x**2 + y**2) / (2 * sigma**2))

    return f2


def fscale(x, y, *, scale=1.0):
    return scale * (x + 2 * y)


def fa(x, y, z, table=None):
    return 1.0 + table[: len(np.atleast_1d(x))] * 0.0 + float(table[1000])


def make_lookalike(kind, variant=0):
    """A leaf that PRINTS like make_leaf(kind, variant) but is a different parameter."""
    import tdgl

    if kind == "P2":
        return tdgl.Parameter(_lookalike_f2(), sigma=1.0 + variant)
    return None


def make_leaf(kind, variant=0):
    import tdgl

    if kind == "P2":
        return tdgl.Parameter(f2, sigma=1.0 + variant)
    if kind == "P3":
        return tdgl.Parameter(f3, sigma=2.0 + variant)
    if kind == "PT":
        return tdgl.Parameter(ft, rate=1.5 + variant, time_dependent=True)
    if kind == "int":
        return 2 + variant
    if kind == "float":
        return 1.5 + variant
    if kind == "num":
        return SPECIAL[variant % len(SPECIAL)]
    raise ValueError(kind)


def ref_leaf(kind, variant, x, y, z, t):
    """Reference semantics of a leaf called as leaf(x, y, z, t=t) inside a composite."""
    x, y = np.atleast_1d(x, y)
    if kind == "P2":
        if z is not None:
            raise TypeError("2-D function got z")
        r = f2(x, y, sigma=1.0 + variant)
    elif kind == "P3":
        if z is None:
            raise TypeError("3-D function needs z")
        r = f3(x, y, np.atleast_1d(z), sigma=2.0 + variant)
    elif kind == "PT":
        if z is None or t is None:
            raise TypeError("needs z and t")
        r = ft(x, y, np.atleast_1d(z), t=t, rate=1.5 + variant)
    elif kind == "int":
        return 2 + variant
    elif kind == "float":
        return 1.5 + variant
    elif kind == "num":
        return SPECIAL[variant % len(SPECIAL)]
    r = np.asarray(r).squeeze()
    return r.item() if r.ndim == 0 else r


def build(tree, shared=None):
    """shared: dict -> the same leaf object is used for every occurrence of a leaf (as in
    user code like `w * 2 + w`); None -> a fresh object per occurrence."""
    if tree[0] == "leaf":
        if shared is None:
            return make_leaf(tree[1], tree[2])
        key = (tree[1], tree[2])
        if key not in shared:
            shared[key] = make_leaf(tree[1], tree[2])
        return shared[key]
    _, op, l, r = tree
    return OPS[op](build(l, shared), build(r, shared))


def ref_eval(tree, x, y, z, t):
    if tree[0] == "leaf":
        return ref_leaf(tree[1], tree[2], x, y, z, t)
    _, op, l, r = tree
    return OPS[op](ref_eval(l, x, y, z, t), ref_eval(r, x, y, z, t))


def is_number(tree):
    return tree[0] == "leaf" and tree[1] in ("int", "float", "num")


def td(tree):
    if tree[0] == "leaf":
        return tree[1] == "PT"
    return td(tree[2]) or td(tree[3])


def has_param(tree):
    if tree[0] == "leaf":
        return tree[1] in ("P2", "P3", "PT")
    return has_param(tree[2]) or has_param(tree[3])


def text(tree):
    if tree[0] == "leaf":
        return f"{tree[1]}{tree[2] if tree[2] else ''}"
    return f"({text(tree[2])} {tree[1]} {text(tree[3])})"


def mutate(tree, rng):
    """A tree differing in exactly one leaf variant or one operator."""
    if tree[0] == "leaf":
        return ("leaf", tree[1], tree[2] + 1)
    _, op, l, r = tree
    c = rng.integers(3)
    if c == 0:
        others = [o for o in OPS if o != op]
        return ("op", others[int(rng.integers(len(others)))], l, r)
    if c == 1:
        return ("op", op, mutate(l, rng), r)
    return ("op", op, l, mutate(r, rng))


def depth1():
    out = []
    for op in OPS:
        for a, b in itertools.product(LEAVES, LEAVES):
            la, lb = ("leaf", a, 0), ("leaf", b, 0)
            if is_number(la) and is_number(lb):
                continue
            out.append(("op", op, la, lb))
    return out


def gen_cases(tier, seed):
    rng = np.random.default_rng(16_000 + seed)
    d1 = depth1()
    trees = list(d1)
    for op in OPS:
        for t1 in d1:
            for lf in LEAVES:
                trees.append(("op", op, t1, ("leaf", lf, 0)))
                trees.append(("op", op, ("leaf", lf, 0), t1))
    # neutral numbers on either side of every operator, at depth 1 and around / inside depth-1 subtrees
    for op in OPS:
        for i in range(len(SPECIAL)):
            for lf in ("P2", "P3", "PT"):
                trees.append(("op", op, ("leaf", "num", i), ("leaf", lf, 0)))
                trees.append(("op", op, ("leaf", lf, 0), ("leaf", "num", i)))
            for t1 in (d1[int(rng.integers(len(d1)))] for _ in range(3 if tier == "quick" else 12)):
                trees.append(("op", op, ("leaf", "num", i), t1))
                trees.append(("op", op, t1, ("leaf", "num", i)))
                o2 = list(OPS)[int(rng.integers(5))]
                trees.append(("op", o2, ("op", op, ("leaf", "num", i), ("leaf", "PT", 0)), t1))
    n22 = 1500 if tier == "quick" else 12000
    ops = list(OPS)
    for _ in range(n22):
        trees.append(("op", ops[int(rng.integers(5))], d1[int(rng.integers(len(d1)))], d1[int(rng.integers(len(d1)))]))
    d2 = trees[len(d1):]
    n3 = 2000 if tier == "quick" else 60000
    for _ in range(n3):
        a = d2[int(rng.integers(len(d2)))]
        c = int(rng.integers(3))
        if c == 0:
            b = ("leaf", LEAVES[int(rng.integers(5))], 0)
        elif c == 1:
            b = d1[int(rng.integers(len(d1)))]
        else:
            b = d2[int(rng.integers(len(d2)))]
        if rng.random() < 0.5:
            a, b = b, a
        trees.append(("op", ops[int(rng.integers(5))], a, b))
    nb = 32 if tier == "quick" else 128
    cases = [{"kind": "trees", "trees": trees[k::nb], "seed": int(rng.integers(1 << 30)), "cost": 5} for k in range(nb)]
    solver_exprs = ["cf*2.0", "2.0*cf", "cf+cf", "cf-0.5*cf", "ramp*cf", "cf*ramp", "(ramp*cf)*2.0", "2.0*(ramp*cf)", "(ramp*cf)+cf", "cf/2", "(cf*ramp)*ramp2", "cf**1"]
    if tier == "quick":
        solver_exprs = solver_exprs[:9]
    for e in solver_exprs:
        cases.append({"kind": "solver", "expr": e, "seed": int(rng.integers(1 << 30)), "cost": 20})
    for j in range(2 if tier == "quick" else 10):
        cases.append({"kind": "closures", "seed": int(rng.integers(1 << 30)), "solve": j == 0, "cost": 15})
    return cases


def ys2_(ys):
    return ys * 0.5 - 0.11


def _eq(a, b):
    a = np.asarray(a); b = np.asarray(b)
    return a.shape == b.shape and np.array_equal(a, b, equal_nan=True)


def _all_caches(p, out):
    from tdgl.parameter import CompositeParameter, Parameter

    if isinstance(p, Parameter):
        out.append(p)
        if isinstance(p, CompositeParameter):
            _all_caches(p.left, out)
            _all_caches(p.right, out)
    return out


def check_tree(tree, rng, V, C):
    from tdgl.parameter import Parameter

    txt = text(tree)

    def viol(kind, mech, detail):
        if len(V) < 12:
            V.append({"kind": kind, "mechanism": mech, "detail": {"tree": txt, **detail}})

    try:
        comp = build(tree)
    except Exception as exc:
        C["build_failures"] = C.get("build_failures", 0) + 1
        mech = "nested_time_dependent_composite" if (isinstance(exc, AttributeError) and "_use_cache" in str(exc)) else "composite_construction_failed"
        viol("cannot_build", mech, {"error": repr(exc)[:200]})
        return False
    # --- values
    xs = rng.uniform(-1, 1, 5); ys = rng.uniform(-1, 1, 5); zs = rng.uniform(-1, 1, 5)
    argsets = [
        (float(xs[0]), float(ys[0]), None, None), (xs, ys, None, None),
        (float(xs[0]), float(ys[0]), float(zs[0]), None), (xs, ys, zs, None),
        (float(xs[0]), float(ys[0]), float(zs[0]), 0.37), (xs, ys, zs, 0.37), (xs, ys, zs, 1.9),
    ]
    # the same expression with shared leaf objects, evaluated repeatedly at the same arguments:
    # values must not depend on evaluation history (caches, aliasing of operand values)
    try:
        leaves = {}
        comp_shared = build(tree, leaves)
        zs2 = zs + 0.731
        # (times that are close to each other, and the pair -1.0 / -2.0 whose Python hashes coincide: a time is a time)
        for (x, y, z, t) in ((xs, ys, zs, 0.37), (xs, ys, zs, 0.37), (xs, ys, zs2, 0.37), (xs, ys, zs, 1.9), (xs, ys2_(ys), zs, 1.9), (xs, ys, zs, 0.37),
                             (xs, ys, zs, 1000.001), (xs, ys, zs, 1000.002), (xs, ys, zs, 0.37 + 1e-9), (xs, ys, zs, -1.0), (xs, ys, zs, -2.0), (xs, ys, zs, 1000.001)):
            try:
                with np.errstate(all="ignore"):
                    want = ref_eval(tree, x, y, z, t)
            except Exception:
                break
            C["repeat_evaluation_checks"] = C.get("repeat_evaluation_checks", 0) + 1
            with np.errstate(all="ignore"):
                got = comp_shared(x, y, z, t)
            if not _eq(got, want):
                viol("value_depends_on_evaluation_history", "value_depends_on_evaluation_history", {"t": t, "got": np.asarray(got).tolist(), "want": np.asarray(want).tolist()})
                break
            # operands themselves still evaluate correctly
            for (kind, variant), leaf in leaves.items():
                if kind in ("int", "float", "num"):
                    continue
                try:
                    lw = ref_leaf(kind, variant, x, y, z, t)
                except Exception:
                    continue
                lg = leaf(x, y, z, t) if kind == "PT" else leaf(x, y, z)
                if not _eq(lg, lw):
                    viol("operand_corrupted_by_composite_evaluation", "value_depends_on_evaluation_history", {"leaf": kind, "t": t})
                    break
    except Exception as exc:
        viol("shared_leaf_evaluation_raised", "composite_evaluation_failed", {"error": repr(exc)[:200]})
    for (x, y, z, t) in argsets:
        C["value_checks"] = C.get("value_checks", 0) + 1
        try:
            with np.errstate(all="ignore"):
                want = ref_eval(tree, x, y, z, t)
            werr = None
        except Exception as exc:
            want, werr = None, exc
        try:
            with np.errstate(all="ignore"):
                got = comp(x, y, z, t) if t is not None else (comp(x, y, z) if z is not None else comp(x, y))
            gerr = None
        except Exception as exc:
            got, gerr = None, exc
        argd = {"scalar": np.ndim(x) == 0, "z": z is not None, "t": t}
        if werr is not None:
            C["raising_operand_cases"] = C.get("raising_operand_cases", 0) + 1
            if gerr is None:
                viol("composite_did_not_raise", "operand_error_swallowed", {"args": argd, "expected": type(werr).__name__})
            elif not isinstance(gerr, type(werr)) and not isinstance(werr, type(gerr)):
                viol("composite_raised_other_type", "operand_error_type_changed", {"args": argd, "expected": type(werr).__name__, "got": repr(gerr)[:160]})
        elif gerr is not None:
            mech = "composite_evaluation_failed"
            viol("composite_raised", mech, {"args": argd, "error": repr(gerr)[:200]})
        elif not _eq(got, want):
            viol("value_mismatch", "value_mismatch", {"args": argd, "got": np.asarray(got).tolist(), "want": np.asarray(want).tolist()})
    # --- flag
    C["flag_checks"] = C.get("flag_checks", 0) + 1
    try:
        flag = comp.time_dependent
        if bool(flag) != td(tree):
            viol("flag_wrong", "time_dependent_flag_wrong", {"flag": bool(flag), "expected": td(tree)})
    except Exception as exc:
        viol("flag_unreadable", "time_dependent_flag_missing", {"error": repr(exc)[:160]})
    # --- equality is structural
    C["equality_checks"] = C.get("equality_checks", 0) + 1
    try:
        twin = build(tree)
        if not (comp == twin) or (comp != twin):
            viol("equal_trees_unequal", "equality_not_structural", {})
        other_tree = mutate(tree, rng)
        other = build(other_tree)
        if comp == other:
            viol("different_trees_equal", "equality_not_structural", {"other": text(other_tree)})
        # operand order is part of the structure: the tree with the two operands of its root swapped is another expression
        # (a - b is not b - a; for + and * the VALUES agree but the trees still differ unless both operands are the same)
        if tree[0] == "op" and text(tree[2]) != text(tree[3]):
            swapped = ("op", tree[1], tree[3], tree[2])
            C["swapped_operand_equality_checks"] = C.get("swapped_operand_equality_checks", 0) + 1
            if tree[1] in ("-", "/", "**") and comp == build(swapped):
                viol("swapped_operands_equal", "equality_not_structural", {"op": tree[1], "swapped": text(swapped)})
        # the operator may be named by its symbol ("+", " ** "): the same expression as the one written with Python's operator
        if tree[0] == "op":
            from tdgl.parameter import CompositeParameter as _CP

            sh_ = {}
            l_, r_ = build(tree[2], sh_), build(tree[3], sh_)
            C["symbol_operator_checks"] = C.get("symbol_operator_checks", 0) + 1
            try:
                by_symbol = _CP(l_, r_, [tree[1], " " + tree[1] + " "][len(text(tree)) % 2])
            except Exception as exc_:  # noqa: BLE001
                try:
                    OPS[tree[1]](l_, r_)
                    viol("symbol_operator_rejected", "symbol_operator_wrong", {"op": tree[1], "error": repr(exc_)[:160]})
                except Exception:  # noqa: BLE001
                    pass  # (the Python operator refuses these operands too, e.g. two numbers)
            else:
                by_python = OPS[tree[1]](l_, r_)
                if not (by_symbol == by_python) or by_symbol.operator is not by_python.operator or bool(by_symbol.time_dependent) != bool(by_python.time_dependent):
                    viol("symbol_operator_other_expression", "symbol_operator_wrong", {"op": tree[1]})
        # the SAME operand objects under another operator are another expression (a + b is not a - b, a * 2 is not a ** 2)
        if tree[0] == "op":
            sh = {}
            first = build(tree, sh)
            for op2 in OPS:
                if op2 == tree[1]:
                    continue
                C["shared_operand_inequality_checks"] = C.get("shared_operand_inequality_checks", 0) + 1
                second = build(("op", op2, tree[2], tree[3]), sh)  # leaves come out of `sh`: identical objects
                if first == second or not (first != second):
                    viol("same_operands_other_operator_equal", "equality_not_structural", {"op": tree[1], "other_op": op2})
                    break
        # numbers are compared as numbers: an expression with 1e-9 is not the expression with 3e-9, 2 is not 2.00001
        if tree[0] == "op" and (is_number(tree[2]) != is_number(tree[3])):
            sh = {}
            side = 2 if is_number(tree[2]) else 3
            pnode = tree[5 - side]
            for v1, v2 in ((1e-9, 3e-9), (1000.0, 1000.005), (2, 2.00001), (0.0, 1e-12)):
                C["close_number_inequality_checks"] = C.get("close_number_inequality_checks", 0) + 1
                pobj = build(pnode, sh)
                e1 = OPS[tree[1]](v1, pobj) if side == 2 else OPS[tree[1]](pobj, v1)
                e2 = OPS[tree[1]](v2, pobj) if side == 2 else OPS[tree[1]](pobj, v2)
                if e1 == e2:
                    viol("close_numbers_equal", "equality_not_structural", {"op": tree[1], "numbers": [v1, v2], "number_on": "left" if side == 2 else "right"})
                    break
        # ... and so are numeric keyword arguments of a leaf
        import tdgl as _tdgl

        C["close_number_inequality_checks"] = C.get("close_number_inequality_checks", 0) + 1
        for v1, v2 in ((1e-9, 3e-9), (1000.0, 1000.005)):
            if (_tdgl.Parameter(fscale, scale=v1) * comp) == (_tdgl.Parameter(fscale, scale=v2) * comp) or _tdgl.Parameter(fscale, scale=v1) == _tdgl.Parameter(fscale, scale=v2):
                viol("close_kwargs_equal", "equality_not_structural", {"kwargs": [v1, v2]})
                break
        # a tree that differs in one leaf which merely PRINTS the same (same function name, other function)
        if "P2" in text(tree):
            import tdgl

            shared = {}
            look = make_lookalike("P2", 0)
            shared[("P2", 0)] = look
            alike = build(tree, shared)
            C["lookalike_equality_checks"] = C.get("lookalike_equality_checks", 0) + 1
            if comp == alike:
                viol("lookalike_trees_equal", "equality_not_structural", {"note": "leaf replaced by a different function with the same name and kwargs"})
        # long array keyword arguments differing only in the middle (elided when printed)
        C["array_kwarg_equality_checks"] = C.get("array_kwarg_equality_checks", 0) + 1
        import tdgl

        t1 = np.linspace(0, 1, 2001); t2 = t1.copy(); t2[1000] += 0.5
        pa, pb = tdgl.Parameter(fa, table=t1), tdgl.Parameter(fa, table=t2)
        if (pa * comp) == (pb * comp) or (comp + pa) == (comp + pb):
            viol("array_kwarg_trees_equal", "equality_not_structural", {"note": "array kwargs differing only in the elided middle"})
        if not ((pa * comp) == (tdgl.Parameter(fa, table=t1.copy()) * comp)):
            viol("equal_trees_unequal", "equality_not_structural", {"note": "equal array kwargs"})
    except Exception as exc:
        viol("equality_raised", "equality_raised", {"error": repr(exc)[:200]})
    # --- cache clearing
    C["clear_cache_checks"] = C.get("clear_cache_checks", 0) + 1
    try:
        r = comp._clear_cache()
        if r is not None:
            viol("clear_cache_returned_value", "clear_cache_wrong", {})
        left = [p for p in _all_caches(comp, []) if len(p._cache)]
        if left:
            viol("cache_not_emptied", "clear_cache_incomplete", {"nonempty": len(left)})
    except Exception as exc:
        right_is_number = not isinstance(getattr(comp, "right", None), Parameter)
        mech = "clear_cache_number_on_right" if (isinstance(exc, AttributeError) and right_is_number) else "clear_cache_raised"
        if isinstance(exc, AttributeError) and not right_is_number:
            mech = "clear_cache_raised_in_subtree"
        viol("clear_cache_raised", mech, {"error": repr(exc)[:200]})
    # --- pickle
    C["pickle_checks"] = C.get("pickle_checks", 0) + 1
    try:
        clone = pickle.loads(pickle.dumps(comp))
        ok_flag = None
        try:
            ok_flag = bool(clone.time_dependent) == td(tree)
        except AttributeError as exc:
            viol("pickled_flag_missing", "pickle_drops_slot_state", {"error": repr(exc)[:160]})
        if ok_flag is False:
            viol("pickled_flag_wrong", "pickle_changes_flag", {})
        if not (clone == comp):
            viol("pickled_not_equal", "pickle_changes_equality", {})
        x, y, z, t = xs, ys, zs, 0.37
        try:
            with np.errstate(all="ignore"):
                want = ref_eval(tree, x, y, z, t)
        except Exception:
            want = None
        if want is not None:
            try:
                with np.errstate(all="ignore"):
                    got = clone(x, y, z, t)
                if not _eq(got, want):
                    viol("pickled_value_mismatch", "pickle_changes_value", {})
            except Exception as exc:
                mech = "pickle_drops_slot_state" if isinstance(exc, AttributeError) else "pickled_evaluation_failed"
                viol("pickled_evaluation_raised", mech, {"error": repr(exc)[:200]})
        try:
            clone._clear_cache()
        except AttributeError as exc:
            right_is_number = not isinstance(getattr(clone, "right", None), Parameter)
            if not right_is_number:
                viol("pickled_clear_cache_raised", "pickle_drops_slot_state", {"error": repr(exc)[:160]})
    except Exception as exc:
        viol("pickle_raised", "pickle_raised", {"error": repr(exc)[:200]})
    return True


def _solver_case(spec):
    """Vector-valued composites handed to tdgl.solve; the run must equal the run with
    the equivalent plain Parameter."""
    import tdgl
    from tdgl.sources import ConstantField, LinearRamp

    from .. import sim, zoo
    from ..simmon import TraceMonitor

    rng = np.random.default_rng(spec["seed"])
    dev = zoo.build_device(zoo.gen_device(rng, n_terminals=0, probes=0, size="tiny", smooth=0, film_kind="box", gamma=1.0))
    B = 0.08

    def cf():
        return ConstantField(B, field_units="mT", length_units="um")

    def ramp():
        return LinearRamp(tmin=0.05, tmax=0.5)

    def ramp2():
        return LinearRamp(tmin=0.0, tmax=1.0, initial=0.5, final=1.5)

    expr = spec["expr"]

    def ev(e):
        return eval(e, {"__builtins__": {}}, {"cf": cf(), "ramp": ramp(), "ramp2": ramp2()})  # noqa: S307 (fixed strings)

    # equivalent plain parameter: same pointwise values, written by hand
    def plain(x, y, z, *, t=0.0, expr=expr, B=B):
        from tdgl.sources.constant import constant_field_vector_potential as cfv
        from tdgl.sources.scaling import linear_ramp as lr

        A = cfv(x, y, z, Bz=float(B), field_units="mT", length_units="um")
        r1 = lr(x, y, z, t=t, tmin=0.05, tmax=0.5)
        r2 = lr(x, y, z, t=t, tmin=0.0, tmax=1.0, initial=0.5, final=1.5)
        return eval(expr, {"__builtins__": {}}, {"cf": A, "ramp": r1, "ramp2": r2})  # noqa: S307

    time_dep = "ramp" in expr
    V, C = [], {"solver_checks": 1}
    o = dict(solve_time=0.6, dt_init=0.001, dt_max=0.02, adaptive=True, save_every=10, field_units="mT", current_units="uA")
    traces = []
    for which in ("plain", "composite"):
        try:
            avp = ev(expr) if which == "composite" else tdgl.Parameter(plain, time_dependent=time_dep)
            tm = TraceMonitor()
            from ..recorder import Recorder

            opts = sim.build_options(o)
            with Recorder([tm]):
                sol = tdgl.solve(dev, opts, applied_vector_potential=avp)
            ups = [u for st in tm.stages for u in st["updates"]]
            traces.append([u["hashes"]["psi"] for u in ups if not u.get("failed")])
        except Exception as exc:
            mech = "solver_rejects_composite"
            s = repr(exc)
            if isinstance(exc, AttributeError) and "_use_cache" in s:
                mech = "nested_time_dependent_composite"
            elif isinstance(exc, AttributeError) and "has no attribute '_cache'" in s:
                mech = "clear_cache_number_on_right"
            if which == "plain":
                return {"status": "harness_error", "error": "plain parameter run failed: " + s}
            V.append({"kind": "solver_rejected_composite", "mechanism": mech, "detail": {"expr": expr, "error": s[:300]}})
            return {"violations": V, "counters": C, "classes": ["solver/" + expr], "nontrivial": True, "key": "solver:" + expr, "sample": {"expr": expr, "result": "rejected"}}
    traces = traces[::-1]
    if traces[0] != traces[1]:
        k = next((i for i, (a, b) in enumerate(zip(traces[0], traces[1])) if a != b), min(len(traces[0]), len(traces[1])))
        V.append({"kind": "composite_run_differs", "mechanism": "composite_run_differs", "detail": {"expr": expr, "first_differing_step": k, "steps": [len(traces[0]), len(traces[1])]}})
    return {"violations": V, "counters": C, "classes": ["solver/" + expr], "nontrivial": len(traces[0]) > 5, "key": "solver:" + expr,
            "sample": {"expr": expr, "steps": len(traces[0]), "identical_to_plain": traces[0] == traces[1]}}


def _make_profile(width, t_dep=False):
    """Leaf functions that cannot be imported by name: closures made by a factory."""
    if t_dep:
        def profile(x, y, z, *, t):
            return (1.0 + np.exp(-(x**2 + y**2 + z**2) / width**2)) * (1.0 + 0.2 * np.sin(t))
    else:
        def profile(x, y, z):
            return 1.0 + np.exp(-(x**2 + y**2 + z**2) / width**2)
    return profile


def _g_sin(x, y, z):
    return 1.5 + np.sin(x) + 0.0 * y


def _g_cos(x, y, z):
    return 1.5 + np.cos(x) + 0.0 * y


def _g_max(x, y, z):
    return 2.0 + np.maximum(x, y)


def _g_min(x, y, z):
    return 2.0 + np.minimum(x, y)


def _closure_case(spec):
    """Composites over closures / lambdas: serialisable (pickle, cloudpickle, deepcopy) and usable by the solver like
    composites over importable functions."""
    import copy as copy_mod

    import cloudpickle
    import tdgl

    rng = np.random.default_rng(spec["seed"])
    V, C = [], {"closure_pickle_checks": 0, "pickle_checks": 0, "value_checks": 0}
    x, y, z = rng.normal(size=5), rng.normal(size=5), rng.normal(size=5)
    w1, w2 = float(rng.uniform(0.5, 2)), float(rng.uniform(0.5, 2))
    leaves = {
        "closure_b": lambda: tdgl.Parameter(_make_profile(w2)),  # same factory, same bytecode, another captured value
        "closure": lambda: tdgl.Parameter(_make_profile(w1)),
        "closure_t": lambda: tdgl.Parameter(_make_profile(w2, True), time_dependent=True),
        "closure_tb": lambda: tdgl.Parameter(_make_profile(w1, True), time_dependent=True),  # same factory as closure_t, another captured value
        "g_sin": lambda: tdgl.Parameter(_g_sin), "g_cos": lambda: tdgl.Parameter(_g_cos),  # differ only in the NAME of the numpy function they call
        "g_max": lambda: tdgl.Parameter(_g_max), "g_min": lambda: tdgl.Parameter(_g_min),
        "lambda": lambda: tdgl.Parameter(lambda x, y, z: 2.0 + 0.0 * x),
        "module": lambda: tdgl.Parameter(f3, sigma=2.0),
    }
    raw = {"closure_tb": lambda t: _make_profile(w1, True)(x, y, z, t=t), "g_sin": lambda t: _g_sin(x, y, z), "g_cos": lambda t: _g_cos(x, y, z),
           "g_max": lambda t: _g_max(x, y, z), "g_min": lambda t: _g_min(x, y, z),
           "closure_b": lambda t: _make_profile(w2)(x, y, z), "closure": lambda t: _make_profile(w1)(x, y, z), "closure_t": lambda t: _make_profile(w2, True)(x, y, z, t=t),
           "lambda": lambda t: 2.0 + 0.0 * x, "module": lambda t: f3(x, y, z, sigma=2.0)}
    combos = [("closure", "*", 2.5), (3, "+", "closure"), ("closure", "-", "module"), ("closure_t", "*", "closure"), ("lambda", "/", "closure"),
              ("closure", "**", 2), (("closure", "+", "lambda"), "*", "closure_t"), (2.0, "*", ("closure_t", "-", 1)),
              ("closure", "+", "closure_b"), ("closure", "-", "closure_b"), ((2, "*", "closure"), "+", (2, "*", "closure_b")), ("closure_b", "/", "closure"),
              ("closure_t", "+", "closure_tb"), ((2, "*", "closure_t"), "-", (3, "*", "closure_tb")), ("closure_tb", "/", "closure_t"),
              ("g_sin", "-", "g_cos"), ("g_max", "/", "g_min"), ((2, "*", "g_cos"), "+", "g_sin")]

    def build(e):
        if isinstance(e, tuple):
            a, op_, b = build(e[0]), e[1], build(e[2])
            return OPS[op_](a, b)
        return leaves[e]() if isinstance(e, str) else e

    def value(e, t):
        if isinstance(e, tuple):
            return OPS[e[1]](value(e[0], t), value(e[2], t))
        return raw[e](t) if isinstance(e, str) else e

    for e in combos:
        comp = build(e)
        tdep = "closure_t" in repr(e)  # (closure_tb included)
        kw = {"t": 0.37} if tdep else {}
        want = value(e, 0.37)
        C["value_checks"] += 1
        try:
            got0 = comp(x, y, z, **kw)
            if not np.allclose(got0, want, rtol=1e-13, atol=0):
                V.append({"kind": "composite_value_wrong", "mechanism": "composite_value_wrong", "detail": {"expr": repr(e), "max_abs_diff": float(np.max(np.abs(np.asarray(got0) - want)))}})
        except Exception as exc:  # noqa: BLE001
            V.append({"kind": "composite_evaluation_raised", "mechanism": "composite_value_wrong", "detail": {"expr": repr(e), "error": repr(exc)[:200]}})
        # the same expression built a second time is structurally the same expression
        C["equality_checks"] = C.get("equality_checks", 0) + 1
        if not (comp == build(e)):
            V.append({"kind": "rebuilt_expression_not_equal", "mechanism": "equality_not_structural", "detail": {"expr": repr(e)}})
        for how, fn in (("pickle", lambda c: pickle.loads(pickle.dumps(c))), ("cloudpickle", lambda c: cloudpickle.loads(cloudpickle.dumps(c))), ("deepcopy", copy_mod.deepcopy)):
            C["closure_pickle_checks"] += 1
            C["pickle_checks"] += 1
            try:
                clone = fn(comp)
                got = clone(x, y, z, **kw)
                C["value_checks"] += 1
                if not np.allclose(got, want, rtol=1e-13, atol=0):
                    V.append({"kind": "pickled_value_mismatch", "mechanism": "pickle_changes_value", "detail": {"expr": repr(e), "how": how}})
                if clone.time_dependent != comp.time_dependent:
                    V.append({"kind": "pickled_flag_wrong", "mechanism": "pickle_changes_flag", "detail": {"expr": repr(e), "how": how}})
                C["equality_checks"] = C.get("equality_checks", 0) + 1
                if not (clone == comp) or not (comp == clone):
                    V.append({"kind": "pickled_not_equal", "mechanism": "pickle_changes_equality", "detail": {"expr": repr(e), "how": how}})
            except Exception as exc:  # noqa: BLE001
                V.append({"kind": "composite_over_closure_not_serialisable", "mechanism": "pickle_raised", "detail": {"expr": repr(e), "how": how, "error": repr(exc)[:200]}})
        # the original still works after having been serialised
        try:
            if not np.allclose(comp(x, y, z, **kw), want, rtol=1e-13, atol=0):
                V.append({"kind": "value_changed_by_serialising", "mechanism": "pickle_changes_value", "detail": {"expr": repr(e)}})
        except Exception as exc:  # noqa: BLE001
            V.append({"kind": "original_unusable_after_serialising", "mechanism": "pickle_raised", "detail": {"expr": repr(e), "error": repr(exc)[:200]}})
    # leaves that evaluate differently are different leaves (and so are the expressions over them), however alike their code looks
    # (two closures of one factory that captured different values DO compare equal in this library - leaf equality is bytecode + kwargs;
    # that is not judged here, see DESIGN 6b)
    for a_, b_ in (("g_sin", "g_cos"), ("g_max", "g_min"), ("g_sin", "g_max"), ("closure", "g_cos")):
        C["equality_checks"] = C.get("equality_checks", 0) + 1
        la_, lb_ = leaves[a_](), leaves[b_]()
        if la_ == lb_ or lb_ == la_ or (2.0 * la_) == (2.0 * lb_) or (la_ + leaves["module"]()) == (lb_ + leaves["module"]()):
            V.append({"kind": "different_leaves_compare_equal", "mechanism": "equality_not_structural", "detail": {"leaves": [a_, b_]}})
        cl_ = pickle.loads(cloudpickle.dumps(2.0 * la_))
        if cl_ == (2.0 * lb_):
            V.append({"kind": "different_leaves_compare_equal", "mechanism": "equality_not_structural", "detail": {"leaves": [a_, b_], "after": "cloudpickle"}})
    # a time-dependent leaf the user keeps OUT of the evaluation cache (use_cache=False) whose function reads data that is refreshed
    # between evaluations: the composite is the combination of what its operands evaluate to NOW
    cell_ = {"v": 1.0}

    def _reads_cell(x, y, z, *, t):
        return cell_["v"] * (1.0 + 0.1 * np.asarray(x)) * (1.0 + t)

    for expr_ in (lambda L: 2.0 * L, lambda L: L - 0.5, lambda L: tdgl.Parameter(f3, sigma=2.0) * L, lambda L: (L + 1) / (L + 2)):
        cell_["v"] = 1.0
        leaf_ = tdgl.Parameter(_reads_cell, time_dependent=True, use_cache=False)
        comp_ = expr_(leaf_)
        first_ = np.array(comp_(x, y, z, t=0.25), copy=True)
        cell_["v"] = 3.0
        C["uncached_leaf_checks"] = C.get("uncached_leaf_checks", 0) + 1
        now_leaf = np.asarray(leaf_(x, y, z, t=0.25))
        if not np.allclose(now_leaf, _reads_cell(x, y, z, t=0.25), rtol=1e-13):
            V.append({"kind": "uncached_leaf_returns_stale_value", "mechanism": "composite_value_wrong", "detail": {"what": "leaf created with use_cache=False, evaluated directly after becoming an operand"}})
        stand_in = tdgl.Parameter(_reads_cell, time_dependent=True, use_cache=False)
        want_ = np.asarray(expr_(stand_in)(x, y, z, t=0.25))
        got_ = np.asarray(comp_(x, y, z, t=0.25))
        if not np.allclose(got_, want_, rtol=1e-13) or np.allclose(got_, first_, rtol=1e-9):
            V.append({"kind": "composite_ne_combination_of_its_operands_now", "mechanism": "composite_value_wrong",
                      "detail": {"what": "operand created with use_cache=False; its function's data changed between two evaluations at the same arguments",
                                 "max_abs_diff": float(np.max(np.abs(got_ - want_)))}})
    if spec.get("solve"):
        # handed to the solver with an output file: the Solution (with the composite inside) is written at the end
        import shutil
        import tempfile

        from .. import sim, zoo

        def make_A(B):
            def A(x, y, z):
                x, y = np.atleast_1d(x), np.atleast_1d(y)
                return np.stack([-B * y / 2, B * x / 2, np.zeros_like(x)], axis=1)
            return A

        dev = zoo.build_device(zoo.gen_device(rng, n_terminals=0, probes=0, size="tiny", smooth=0, film_kind="box", gamma=1.0))
        d = tempfile.mkdtemp(prefix="vt_c16_")
        C["solver_checks"] = 1
        try:
            opts = sim.build_options(dict(solve_time=0.2, dt_init=0.001, dt_max=0.02, adaptive=True, save_every=10, field_units="mT", current_units="uA"), output_file=d + "/out.h5")
            sol = tdgl.solve(dev, opts, applied_vector_potential=2.0 * tdgl.Parameter(make_A(0.02)))
            back = tdgl.Solution.from_hdf5(sol.path)
            P = rng.normal(size=(4, 3))
            a, b = sol.applied_vector_potential(P[:, 0], P[:, 1], P[:, 2]), back.applied_vector_potential(P[:, 0], P[:, 1], P[:, 2])
            if not np.array_equal(np.asarray(a), np.asarray(b)):
                V.append({"kind": "loaded_parameter_value_differs", "mechanism": "pickle_changes_value", "detail": {"expr": "2.0 * Parameter(closure)"}})
        except Exception as exc:  # noqa: BLE001
            V.append({"kind": "solver_rejected_composite", "mechanism": "solver_rejects_composite", "detail": {"expr": "2.0 * Parameter(closure)", "error": repr(exc)[:300]}})
        finally:
            shutil.rmtree(d, ignore_errors=True)
    return {"violations": V[:8], "counters": C, "classes": ["closures", "solve=" + str(bool(spec.get("solve")))], "nontrivial": C["closure_pickle_checks"] > 0,
            "nontrivial_n": C["closure_pickle_checks"], "key": f"closures:{spec['seed']}", "sample": {"serialisations": C["closure_pickle_checks"], "violations": len(V)}}


def run_case(spec):
    if spec["kind"] == "closures":
        return _closure_case(spec)
    if spec["kind"] == "solver":
        return _solver_case(spec)
    rng = np.random.default_rng(spec["seed"])
    V, C = [], {}
    nontriv = 0
    texts = set()
    for tr in spec["trees"]:
        tree = _tuplify(tr)
        built = check_tree(tree, rng, V, C)
        if has_param(tree):
            nontriv += 1
            texts.add(text(tree))
    C["trees"] = len(spec["trees"])
    # de-duplicate violations by (mechanism) keeping first witnesses
    seen, VV = {}, []
    for v in V:
        seen[v["mechanism"]] = seen.get(v["mechanism"], 0) + 1
        if seen[v["mechanism"]] <= 2:
            VV.append(v)
    return {"violations": VV, "counters": C, "classes": ["trees"], "nontrivial": nontriv > 0, "key": "batch:%d:%d" % (len(texts), spec["seed"]), "nontrivial_n": len(texts),
            "observations": {"distinct_trees": len(texts)},
            "sample": {"trees": len(spec["trees"]), "first": text(_tuplify(spec["trees"][0])), "last": text(_tuplify(spec["trees"][-1]))}}


def _tuplify(t):
    if isinstance(t, (list, tuple)):
        return tuple(_tuplify(x) for x in t)
    return t
