"""C07 Mesh geometry is the Delaunay/Voronoi dual of the device domain.

Postconditions on Device.make_mesh (and on the mesh after in-place device operations)
against independent geometry (vt/ref/geom.py + shapely): triangles tile film minus
holes with positive orientation; boundary sites/edges are exactly those on the
outlines; Euler characteristic; edge vectors/lengths/centres from site pairs; each
eligible site's area and each eligible edge's dual length equal the Voronoi cell /
face obtained by half-plane clipping and intersection with the domain polygon;
terminal membership and length against the boundary covered by the terminal polygon."""
import math

import numpy as np

from .. import zoo
from ..ref import geom

RULE = (
    "case = one device (box / rotated box / ellipse / cross / L films, 0-2 holes incl. non-convex slot holes, 0-4 terminals, "
    "max_edge_length / min_points / smooth in {0,1,10,100}, several coherence lengths and length units) meshed with Device.make_mesh, "
    "optionally re-meshed or translated in place afterwards; every triangle, site and edge is checked. non-trivial = mesh built and "
    ">= 50% of the sites eligible for the Voronoi clause; distinct = distinct device spec"
)
REQUIRED_COUNTERS = ["triangle_checks", "boundary_checks", "euler_checks", "edge_geometry_checks", "voronoi_area_checks", "dual_length_checks", "terminal_checks", "post_operation_checks"]
CASE_TIMEOUT = {"quick": 900, "thorough": 2400}
ASSUMPTIONS = ["shapely computes polygon intersection/area/length correctly",
               "Voronoi clause judged only where the triangulation is locally Delaunay, boundary edges are unencroached, no non-neighbour site cuts the cell and the clipped cell is one piece; skipped sites are counted with the reason"]


def gen_cases(tier, seed):
    rng = np.random.default_rng(7_000 + seed)
    n = 8 if tier == "quick" else 80
    cases = []
    kinds = ["box", "ellipse", "cross", "L", "box", "box", "ellipse", "box"]
    for k in range(n):
        fk = kinds[k % len(kinds)]
        nt = int([2, 0, 0, 0, 3, 4, 0, 2][k % 8]) if fk == "box" else 0
        nh = int([0, 1, 0, 0, 1, 0, 2, 0][k % 8])
        size = "small" if tier == "quick" else str(rng.choice(["small", "medium", "large"]))
        dev = zoo.gen_device(rng, n_terminals=nt, n_holes=nh, probes=0, size=size, film_kind=fk, smooth=int([0, 1, 10, 100][k % 4]),
                             angle=float(rng.uniform(-40, 40)) if (fk == "box" and k % 3 == 1) else None, xi=float(rng.choice([0.1, 0.5, 1.0, 3.0])))
        dev["length_units"] = str(rng.choice(["um", "nm"]))
        if k % 4 == 2 and rng.random() < 0.7:
            dev["mesh"]["min_points"] = int(rng.integers(150, 400))
        if nh and k % 2 == 0:
            # non-convex (U-shaped slot) hole: its vertex mean lies outside the hole
            c = dev["holes"][0].get("center", [0.0, 0.0])
            W = dev["film"].get("w", 2 * dev["film"].get("a", 1.0))
            H = dev["film"].get("h", 2 * dev["film"].get("b", 1.0))
            s = 0.10 * min(W, H)
            corners = [(-1.2, -1.35), (1.2, -1.35), (1.2, 1.4), (0.7, 1.4), (0.7, -0.45), (-0.7, -0.45), (-0.7, 1.4), (-1.2, 1.4)]
            xy = []
            for (x0, y0), (x1, y1) in zip(corners, corners[1:] + corners[:1]):
                nseg = max(1, int(round(np.hypot(x1 - x0, y1 - y0) / 0.6)))
                for q in range(nseg):
                    xy.append([c[0] + s * (x0 + (x1 - x0) * q / nseg), c[1] + s * (y0 + (y1 - y0) * q / nseg)])
            dev["holes"][0] = {"name": "hole0", "kind": "points", "xy": xy, "nonconvex": True}
        if nh and k % 4 in (1, 2):
            # a hole outline that is "second hand": the polygon (or what it was copied from) served as a terminal before,
            # which leaves Polygon.mesh == False on it. It is a hole of THIS device all the same.
            dev["holes"][-1]["mesh_flag"] = False
        post = [None, "remesh", "translate_inplace", "translation_context", "roundtrip", "translate_copy_inplace", "smooth_separately", "translate_inplace"][k % 8]
        if k % 3 == 0:
            # device away from the origin
            dev["offset"] = [float(rng.uniform(-30, 30)) * dev["layer"]["xi"], float(rng.uniform(-30, 30)) * dev["layer"]["xi"]]
        if k % 6 == 4:
            # ... and far away from it (chip / wafer coordinates): 8e4 .. 3e5 coherence lengths (beyond ~1e6 a sloppy circumcentre formula makes the mesher refuse the cells outright)
            far = 10.0 ** float(rng.uniform(4.9, 5.5)) * dev["layer"]["xi"]
            ang_ = float(rng.uniform(0, 2 * np.pi))
            dev["offset"] = [far * float(np.cos(ang_)), far * float(np.sin(ang_))]
        if k % 5 == 1:
            # no refinement requested: the mesh density comes from the outline vertices only
            dev["mesh"]["max_edge_length"] = 0.0
            dev["mesh"]["min_points"] = None
        if fk == "box" and k % 4 == 3:
            dev["film"]["points"] = 4  # outline given by its corners; boundary sites are inserted by the mesher
        if dev["terminals"] and fk == "box" and k % 4 == 1 and not dev["film"].get("angle"):
            # a contact pad that wraps a CORNER of the film: the boundary it covers is bent
            t = dev["terminals"][-1]
            Wf, Hf = dev["film"]["w"], dev["film"]["h"]
            t.update(center=[Wf / 2, Hf / 2], w=0.5 * min(Wf, Hf), h=0.6 * min(Wf, Hf))
            t.pop("angle", None)
        if dev["terminals"] and k % 2 == 0:
            # a thick contact pad reaching into the film instead of a thin sliver
            t = dev["terminals"][0]
            if t["w"] < t["h"]:
                t["w"] = 0.35 * dev["film"]["w"]
            else:
                t["h"] = 0.35 * dev["film"]["h"]
        cases.append({"device": dev, "post": post, "seed": int(rng.integers(1 << 30)), "cost": {"small": 5, "medium": 15, "large": 60}[size]})
    for j in range(1 if tier == "quick" else 4):
        # two contact pads that overlap along the boundary (the second one is the first one shifted by half its extent along the
        # edge): each terminal's length is the boundary length IT covers, whatever the other one covers
        dev = zoo.gen_device(rng, n_terminals=2, n_holes=0, probes=0, size="small", film_kind="box", smooth=0)
        t0 = dev["terminals"][0]
        t1 = dict(t0, name=dev["terminals"][1]["name"])
        c0 = list(t0.get("center", [0.0, 0.0]))
        if t0["w"] < t0["h"]:
            t0["h"] = min(t0["h"], 0.5 * dev["film"]["h"])
            t1["h"] = t0["h"]
            c1 = [c0[0], c0[1] + [0.5, 0.3, -0.5, 0.8][j % 4] * t0["h"]]
        else:
            t0["w"] = min(t0["w"], 0.5 * dev["film"]["w"])
            t1["w"] = t0["w"]
            c1 = [c0[0] + [0.5, 0.3, -0.5, 0.8][j % 4] * t0["w"], c0[1]]
        t1["center"] = c1
        dev["terminals"][1] = t1
        cases.append({"device": dev, "post": None, "overlapping_terminals": True, "seed": int(rng.integers(1 << 30)), "cost": 5})
    for j in range(2 if tier == "quick" else 8):
        # a film with a sharp reflex notch (a thin wedge cut into one side of a box): the site at the tip of the wedge sees the
        # domain on more than half a turn; wherever the premise holds (locally Delaunay, unencroached boundary edges) its cell is
        # still its clipped Voronoi region
        dev = zoo.gen_device(rng, n_terminals=0, n_holes=0, probes=0, size="small", film_kind="box", smooth=0, xi=float(rng.choice([0.5, 1.0])))
        Wn, Hn = dev["film"]["w"], dev["film"]["h"]
        wn = float([0.03, 0.12, 0.06, 0.2][j % 4]) * Wn   # width of the wedge at the edge
        dn = float([0.55, 0.4, 0.7, 0.3][j % 4]) * Hn     # its depth
        x0 = float(rng.uniform(-0.2, 0.2)) * Wn
        ring = [[-Wn / 2, -Hn / 2], [Wn / 2, -Hn / 2], [Wn / 2, Hn / 2], [x0 + wn / 2, Hn / 2], [x0, Hn / 2 - dn], [x0 - wn / 2, Hn / 2], [-Wn / 2, Hn / 2]]
        step = float(dev["mesh"].get("max_edge_length") or 0.1 * Wn)
        xy = []
        for (xa, ya), (xb, yb) in zip(ring, ring[1:] + ring[:1]):
            nseg = max(1, int(round(np.hypot(xb - xa, yb - ya) / step)))
            for q in range(nseg):
                xy.append([xa + (xb - xa) * q / nseg, ya + (yb - ya) * q / nseg])
        dev["film"] = {"kind": "points", "xy": xy}
        cases.append({"device": dev, "post": None, "notch": True, "seed": int(rng.integers(1 << 30)), "cost": 6})
    for j in range(1 if tier == "quick" else 4):
        # a sub-micron device stated in METRES (coordinates ~1e-7), moved in place by a few nanometres (numbers ~1e-9)
        dev = zoo.gen_device(rng, n_terminals=int([2, 0][j % 2]), n_holes=int(j % 2), probes=0, size="small", smooth=0)
        dev = zoo.scale_device_spec(dev, 1e-7, "m")
        W_ = dev["film"].get("w", 4e-7)
        cases.append({"device": dev, "post": "tiny_move", "move": [0.012 * W_, -0.009 * W_], "seed": int(rng.integers(1 << 30)), "cost": 5})
    for j in range(1 if tier == "quick" else 3):
        # the same kind of device with a DENSELY sampled outline: neighbouring outline vertices are a few nanometres apart
        # (numbers ~1e-9 apart): every one of them is a vertex of the outline and a boundary site of the mesh
        dev = zoo.gen_device(rng, n_terminals=0, n_holes=int(j % 2), probes=0, size="small", film_kind="ellipse", smooth=0)
        dev["film"]["points"] = int([420, 600, 500][j % 3])
        dev = zoo.scale_device_spec(dev, 1e-7, "m")
        cases.append({"device": dev, "post": None, "seed": int(rng.integers(1 << 30)), "cost": 8})
    for j in range(2 if tier == "quick" else 6):
        # exactly structured tiny meshes: a rectangle given by its corners (and side midpoints), no refinement. Pairs of right
        # triangles share their circumcentre (cocircular sites, zero dual edge length): weakly Delaunay, cells still well defined
        dev = zoo.gen_device(rng, n_terminals=0, n_holes=0, probes=0, size="small", film_kind="box", smooth=0, xi=float(rng.choice([0.1, 1.0])))
        dev["film"]["points"] = [4, 8, 12][j % 3]
        dev["mesh"].update(max_edge_length=0.0, min_points=None, smooth=[0, 100][j % 2])
        if j % 2:
            dev["offset"] = [float(rng.uniform(-5, 5)), float(rng.uniform(-5, 5))]
        cases.append({"device": dev, "post": [None, "translate_inplace"][j % 2], "seed": int(rng.integers(1 << 30)), "cost": 2})
    return cases


class Ctx:
    def __init__(self):
        self.V, self.C, self.W, self.skip = [], {}, {}, {}

    def cnt(self, k, n=1):
        self.C[k] = self.C.get(k, 0) + n

    def viol(self, kind, detail):
        if len(self.V) < 12:
            self.V.append({"kind": kind, "mechanism": kind, "detail": detail})

    def worst(self, k, v):
        self.W[k] = max(self.W.get(k, 0.0), float(v))


def check_mesh(cx, dev, where):
    """All clauses on the device's current mesh against its current polygons."""
    from shapely.geometry import LineString, Point, Polygon as SPoly

    mesh = dev.mesh
    xi = dev.layer.coherence_length
    sites = np.asarray(mesh.sites, dtype=float)
    el = np.asarray(mesh.elements)
    em = mesh.edge_mesh
    n = len(sites)
    film = np.asarray(dev.film.points, dtype=float) / xi
    holes = [np.asarray(h.points, dtype=float) / xi for h in dev.holes]
    scale = float(np.ptp(film, axis=0).max())
    # the geometry is translation invariant: the oracle works in coordinates relative to the mesh centroid, so that its own
    # arithmetic does not lose digits for a device far from the origin; the data themselves carry rounding eps * |coordinate|
    ctr0 = sites.mean(axis=0)
    mag = float(np.abs(sites).max())
    far = 16 * np.finfo(float).eps * mag
    sites = sites - ctr0
    film = film - ctr0
    holes = [h - ctr0 for h in holes]
    domain = SPoly(film[:-1], [h[:-1] for h in holes])
    tol = 1e-9 * scale
    # ---- triangles
    sa = geom.signed_tri_areas(sites, el)
    cx.cnt("triangle_checks", len(el))
    if np.any(sa <= 0):
        cx.viol("triangle_not_positively_oriented", {"where": where, "count": int((sa <= 0).sum()), "min_area": float(sa.min())})
    if np.any(np.abs(sa) < 1e-12 * scale**2):
        cx.viol("degenerate_triangle", {"where": where, "count": int((np.abs(sa) < 1e-12 * scale**2).sum())})
    tot = float(np.abs(sa).sum())
    cx.worst("tiling_area_rel", abs(tot - domain.area) / domain.area / 1e-9)
    if abs(tot - domain.area) > 1e-9 * domain.area:
        cx.viol("triangles_do_not_tile_domain", {"where": where, "triangle_area_sum": tot, "domain_area": domain.area})
    cen = sites[el].mean(axis=1)
    inside_bad = 0
    for c in cen[:: max(1, len(cen) // 400)]:
        if not domain.buffer(tol).contains(Point(c)):
            inside_bad += 1
    if inside_bad:
        cx.viol("triangle_outside_domain", {"where": where, "count": inside_bad})
    edges, counts, tris_of_edge = geom.edges_from_elements(el)
    if np.any(counts > 2):
        cx.viol("edge_in_more_than_two_triangles", {"where": where})
    # ---- edges recomputed from site pairs
    cx.cnt("edge_geometry_checks", len(edges))
    if em.edges.shape != edges.shape or not np.array_equal(np.asarray(em.edges), edges):
        cx.viol("edge_list_wrong", {"where": where, "n_mesh": int(len(em.edges)), "n_ref": int(len(edges))})
        return
    d = sites[edges[:, 1]] - sites[edges[:, 0]]
    for name, got, want in (("directions", em.directions, d), ("edge_lengths", em.edge_lengths, np.hypot(d[:, 0], d[:, 1])), ("centers", np.asarray(em.centers) - ctr0, sites[edges].mean(axis=1)),
                            ("normalized_directions", em.normalized_directions, d / np.hypot(d[:, 0], d[:, 1])[:, None])):
        err = float(np.max(np.abs(np.asarray(got) - want)))
        cx.worst(name, err / (1e-11 * scale + far))
        if np.asarray(got).shape != want.shape or err > 1e-11 * scale + far:
            cx.viol("edge_" + name + "_not_from_site_pairs", {"where": where, "max_err": err})
    # ---- boundary
    cx.cnt("boundary_checks")
    bedges = np.where(counts == 1)[0]
    if not np.array_equal(np.sort(np.asarray(em.boundary_edge_indices)), bedges):
        cx.viol("boundary_edges_wrong", {"where": where, "n_mesh": int(len(em.boundary_edge_indices)), "n_ref": int(len(bedges))})
    bsites = np.unique(edges[bedges].ravel())
    if not np.array_equal(np.sort(np.asarray(mesh.boundary_indices)), bsites):
        cx.viol("boundary_sites_wrong", {"where": where})
    rings = [LineString(film)] + [LineString(h) for h in holes]
    dist_all = np.array([min(r.distance(Point(p)) for r in rings) for p in sites])
    on_outline = dist_all < 1e-7 * scale
    if not np.array_equal(np.where(on_outline)[0], bsites):
        extra = np.setdiff1d(bsites, np.where(on_outline)[0])
        missing = np.setdiff1d(np.where(on_outline)[0], bsites)
        cx.viol("boundary_sites_not_exactly_on_outlines", {"where": where, "boundary_sites_off_outline": extra[:5].tolist(), "outline_sites_not_boundary": missing[:5].tolist(),
                                                           "max_dist_boundary_site": float(dist_all[bsites].max()) if len(bsites) else None})
    # boundary edges lie along the outlines (midpoint on an outline)
    mids = sites[edges[bedges]].mean(axis=1)
    dm = np.array([min(r.distance(Point(p)) for r in rings) for p in mids])
    # on curved outlines (ellipse) the chord midpoint is off the polyline only if Triangle merged outline vertices; it must not
    if np.any(dm > 1e-7 * scale):
        cx.viol("boundary_edge_not_along_outline", {"where": where, "count": int((dm > 1e-7 * scale).sum()), "max_dist": float(dm.max())})
    # every outline vertex is a mesh site
    for ring_pts in [film[:-1]] + [h[:-1] for h in holes]:
        dmin = np.min(np.linalg.norm(ring_pts[:, None, :] - sites[None, bsites, :], axis=2), axis=1) if len(bsites) else np.array([np.inf])
        if np.any(dmin > 1e-7 * scale):
            cx.viol("outline_vertex_not_a_mesh_site", {"where": where, "count": int((dmin > 1e-7 * scale).sum())})
    # ---- Euler characteristic
    cx.cnt("euler_checks")
    chi = n - len(edges) + len(el)
    if chi != 1 - len(holes):
        cx.viol("euler_characteristic_wrong", {"where": where, "V": n, "E": int(len(edges)), "T": int(len(el)), "holes": len(holes), "V-E+T": int(chi)})
    # ---- Voronoi clause
    cc = geom.circumcenters(sites, el)
    # local Delaunay / encroachment per edge
    ang_sum = np.zeros(len(edges))
    for k, ts in enumerate(tris_of_edge):
        i, j = edges[k]
        for t in ts:
            o = [v for v in el[t] if v != i and v != j][0]
            ang_sum[k] += geom.angle_at(sites[o], sites[i], sites[j])
    interior = counts == 2
    bad_edge = np.where(interior, ang_sum > math.pi + 1e-9, ang_sum > math.pi / 2 + 1e-9)
    nbrs = [[] for _ in range(n)]
    inc_edges = [[] for _ in range(n)]
    for k, (i, j) in enumerate(edges):
        nbrs[i].append(j); nbrs[j].append(i)
        inc_edges[i].append(k); inc_edges[j].append(k)
    tris_of_site = [[] for _ in range(n)]
    for t, tri in enumerate(el):
        for v in tri:
            tris_of_site[v].append(t)
    edge_index = {(int(i), int(j)): k for k, (i, j) in enumerate(edges)}
    from scipy.spatial import cKDTree

    tree = cKDTree(sites)
    # encroachment proper: ANY site strictly inside the diametral circle of a boundary edge encroaches it - also one that sits across
    # a thin notch (outside the domain in between), which the opposite-angle test of the adjacent triangle cannot see
    for k in np.flatnonzero(~interior):
        i_, j_ = (int(v) for v in edges[k])
        mid_ = 0.5 * (sites[i_] + sites[j_])
        rad_ = 0.5 * float(np.linalg.norm(sites[i_] - sites[j_]))
        if any(q not in (i_, j_) for q in tree.query_ball_point(mid_, rad_ * (1 - 1e-9))):
            bad_edge[k] = True
    bb = (sites[:, 0].min() - scale, sites[:, 1].min() - scale, sites[:, 0].max() + scale, sites[:, 1].max() + scale)
    areas = np.asarray(mesh.areas)
    dual = np.asarray(em.dual_edge_lengths)
    eligible = 0
    checked_edges = set()
    if abs(float(areas.sum()) - domain.area) > 1e-8 * domain.area:
        # (exact when no cell is skipped by the implementation's non-convex handling)
        cx.skip["cell_area_sum_differs"] = cx.skip.get("cell_area_sum_differs", 0) + 1
    for i in range(n):
        # star of i must be locally Delaunay and unencroached
        star_edges = set(inc_edges[i])
        for t in tris_of_site[i]:
            a, b, c = (int(v) for v in el[t])
            for p, q in ((a, b), (b, c), (c, a)):
                star_edges.add(edge_index[(p, q) if p < q else (q, p)])
        if any(bad_edge[k] for k in star_edges):
            cx.skip["not_locally_delaunay_or_encroached"] = cx.skip.get("not_locally_delaunay_or_encroached", 0) + 1
            continue
        kq = min(40, n)
        _, near = tree.query(sites[i], k=kq)
        near = [int(j) for j in np.atleast_1d(near) if j != i]
        reg_all = geom.voronoi_region(i, sites, near, bb)
        reg_nb = geom.voronoi_region(i, sites, nbrs[i], bb)
        if len(reg_all) < 3 or len(reg_nb) < 3:
            cx.skip["degenerate_region"] = cx.skip.get("degenerate_region", 0) + 1
            continue
        Pa, Pn = SPoly(reg_all), SPoly(reg_nb)
        ca = Pa.intersection(domain)
        cn = Pn.intersection(domain)
        if ca.geom_type != "Polygon" or cn.geom_type != "Polygon":
            cx.skip["clipped_cell_not_one_piece"] = cx.skip.get("clipped_cell_not_one_piece", 0) + 1
            continue
        if abs(ca.area - cn.area) > 1e-9 * cn.area:
            cx.skip["non_neighbour_cuts_cell"] = cx.skip.get("non_neighbour_cuts_cell", 0) + 1
            continue
        eligible += 1
        cx.cnt("voronoi_area_checks")
        r = abs(areas[i] - ca.area) / ca.area
        cx.worst("voronoi_area_rel_over_gate", r / (1e-8 + 50 * far))
        if r > 1e-8 + 50 * far:
            cx.viol("cell_area_ne_clipped_voronoi_area", {"where": where, "site": i, "mesh_area": float(areas[i]), "voronoi_area": float(ca.area), "boundary_site": bool(i in set(bsites.tolist()))})
        # faces
        for k in inc_edges[i]:
            if k in checked_edges:
                continue
            a_, b_ = (int(x) for x in edges[k])
            j = b_ if a_ == i else a_
            # the face of the region on the bisector of (i, j)
            p, q = sites[i], sites[j]
            nrm = q - p
            c0 = 0.5 * (q @ q - p @ p)
            on = [v for v in reg_all if abs(nrm[0] * v[0] + nrm[1] * v[1] - c0) <= 1e-9 * scale * np.linalg.norm(nrm) + 1e-12]
            if len(on) < 2:
                face_len = 0.0
            else:
                tdir = np.array([-nrm[1], nrm[0]]) / np.linalg.norm(nrm)
                proj = [v[0] * tdir[0] + v[1] * tdir[1] for v in on]
                seg = LineString([on[int(np.argmin(proj))], on[int(np.argmax(proj))]])
                face_len = seg.intersection(domain.buffer(1e-12 * scale)).length
            checked_edges.add(k)
            cx.cnt("dual_length_checks")
            err = abs(dual[k] - face_len)
            cx.worst("dual_length_abs_over_gate", err / (1e-7 * scale + 50 * far))
            if err > 1e-7 * scale + 50 * far:
                cx.viol("dual_length_ne_clipped_voronoi_face", {"where": where, "edge": [a_, b_], "mesh_dual_length": float(dual[k]), "voronoi_face_length": float(face_len),
                                                                "boundary_edge": bool(counts[k] == 1)})
    cx.C["sites_total"] = cx.C.get("sites_total", 0) + n
    cx.C["sites_eligible"] = cx.C.get("sites_eligible", 0) + eligible
    # ---- terminals
    info = {t.name: t for t in dev.terminal_info()} if dev.terminals else {}
    for term in dev.terminals:
        cx.cnt("terminal_checks")
        tp = np.asarray(term.points, dtype=float) / xi - ctr0
        tpoly = SPoly(tp[:-1])
        ti = info.get(term.name)
        if ti is None:
            cx.viol("terminal_missing_from_terminal_info", {"where": where, "terminal": term.name})
            continue
        # boundary edges whose centre lies in the terminal polygon
        bc = sites[edges[bedges]].mean(axis=1)
        wn, dd = geom.winding_number(bc, tp)
        mine = bedges[wn != 0]
        theirs = np.sort(np.asarray(em.boundary_edge_indices)[np.asarray(ti.boundary_edge_indices, dtype=int)])
        if not np.any(dd < 1e-9 * scale) and not np.array_equal(np.sort(mine), theirs):
            cx.viol("terminal_edges_wrong", {"where": where, "terminal": term.name, "n_mesh": int(len(theirs)), "n_ref": int(len(mine))})
        if not np.array_equal(np.sort(np.asarray(ti.edge_indices)), theirs):
            cx.viol("terminal_edge_indices_inconsistent", {"where": where, "terminal": term.name})
        # boundary sites inside the polygon
        wn_s, dd_s = geom.winding_number(sites[bsites], tp)
        mine_s = bsites[wn_s != 0]
        if not np.any(dd_s < 1e-9 * scale) and not np.array_equal(np.sort(mine_s), np.sort(np.asarray(ti.site_indices))):
            cx.viol("terminal_sites_wrong", {"where": where, "terminal": term.name, "n_mesh": int(len(ti.site_indices)), "n_ref": int(len(mine_s))})
        # length vs boundary length covered by the polygon, within one boundary edge at each end
        covered = sum(r.intersection(tpoly).length for r in rings) * xi
        L = float(ti.length)
        el_len = np.hypot(d[mine, 0], d[mine, 1]) * xi if len(mine) else np.array([0.0])
        slack = 2 * float(np.max(np.hypot(d[bedges, 0], d[bedges, 1]))) * xi
        mine_len = float(np.sum(el_len))
        if abs(L - mine_len) > 1e-9 * max(mine_len, 1e-300):
            cx.viol("terminal_length_ne_sum_of_its_edges", {"where": where, "terminal": term.name, "length": L, "sum_of_edges": mine_len})
        if abs(L - covered) > slack + 1e-9:
            cx.viol("terminal_length_ne_covered_boundary", {"where": where, "terminal": term.name, "length": L, "covered": covered, "slack": slack})


def run_case(spec):
    dev, why = zoo.try_build_device(spec["device"])
    if dev is None:
        return {"violations": [], "counters": {"refused_mesh": 1}, "classes": ["refused"], "nontrivial": False}
    cx = Ctx()
    check_mesh(cx, dev, "make_mesh")
    post = spec.get("post")
    rng = np.random.default_rng(spec["seed"])
    m = spec["device"]["mesh"]
    try:
        if post == "remesh":
            _ = dev.terminal_info() if dev.terminals else None
            dev.make_mesh(max_edge_length=m["max_edge_length"] * float(rng.choice([0.7, 1.4])), smooth=int(rng.choice([0, 3])))
            cx.cnt("post_operation_checks")
            check_mesh(cx, dev, "after_remesh")
        elif post == "roundtrip":
            import os
            import tempfile

            import tdgl

            tmp = tempfile.mkdtemp(prefix="vt_c07_")
            try:
                dev.to_hdf5(os.path.join(tmp, "dev.h5"))
                dev2 = tdgl.Device.from_hdf5(os.path.join(tmp, "dev.h5"))
                cx.cnt("post_operation_checks")
                check_mesh(cx, dev2, "after_hdf5_roundtrip")
            finally:
                import shutil

                shutil.rmtree(tmp, ignore_errors=True)
        elif post == "smooth_separately":
            # Mesh.smooth() returns a NEW mesh; the device's own mesh (also shared by Device.copy()) stays as it was
            sites0 = np.array(dev.mesh.sites, copy=True)
            d2 = dev.copy()
            sm = d2.mesh.smooth(int(rng.choice([1, 3])))
            cx.cnt("post_operation_checks")
            if not np.array_equal(np.asarray(dev.mesh.sites), sites0):
                cx.viol("smooth_moved_the_sites_of_the_original_mesh", {"max_shift": float(np.abs(np.asarray(dev.mesh.sites) - sites0).max())})
            if sm is dev.mesh or np.shares_memory(np.asarray(sm.sites), np.asarray(dev.mesh.sites)):
                cx.viol("smoothed_mesh_aliases_original", {})
            check_mesh(cx, dev, "after_smoothing_a_copy")
            # the mesh smooth() hands back is a mesh like any other: its dual (circumcentres, edge vectors, cell areas) belongs to ITS sites
            d3 = dev.copy()
            d3.mesh = sm
            check_mesh(cx, d3, "mesh_returned_by_Mesh.smooth")
            # the copy is another device: giving IT another coherence length (a material sweep on copies of one template) does not
            # rescale the original's physical mesh
            d2.layer.coherence_length = 4.0 * float(d2.layer.coherence_length)
            check_mesh(cx, dev, "original_after_its_copy_got_another_coherence_length")
        elif post == "translate_copy_inplace":
            # Device.copy() shares the Mesh object with the original: moving the COPY in place leaves the original where it is
            W = float(np.ptp(dev.film.points[:, 0]))
            d2 = dev.copy()
            d2.translate(dx=float(rng.uniform(0.5, 2)) * W, dy=float(rng.uniform(-2, -0.5)) * W, inplace=True)
            cx.cnt("post_operation_checks")
            check_mesh(cx, dev, "original_after_moving_a_copy")
            check_mesh(cx, d2, "moved_copy")
            with dev.copy().translation(0.7 * W, 0.3 * W):
                check_mesh(cx, dev, "original_while_a_copy_is_inside_translation()")
        elif post == "translate_inplace":
            W = float(np.ptp(dev.film.points[:, 0]))
            dev.translate(dx=float(rng.uniform(-2, 2)) * W, dy=float(rng.uniform(-2, 2)) * W, inplace=True)
            cx.cnt("post_operation_checks")
            check_mesh(cx, dev, "after_translate_inplace")
        elif post == "tiny_move":
            dev.translate(dx=spec["move"][0], dy=spec["move"][1], inplace=True)
            cx.cnt("post_operation_checks")
            check_mesh(cx, dev, "after_tiny_move_in_metres")
            with dev.translation(-0.5 * spec["move"][0], 0.7 * spec["move"][1]):
                check_mesh(cx, dev, "inside_tiny_translation_context")
        elif post == "translation_context":
            W = float(np.ptp(dev.film.points[:, 0]))
            with dev.translation(float(rng.uniform(0.5, 2)) * W, float(rng.uniform(-2, -0.5)) * W):
                cx.cnt("post_operation_checks")
                check_mesh(cx, dev, "inside_translation_context")
            check_mesh(cx, dev, "after_translation_context")
        else:
            cx.cnt("post_operation_checks")  # (no post operation requested for this case)
    except ValueError as exc:
        if "Malformed Voronoi" not in str(exc):
            raise
        cx.cnt("refused_remesh")
    frac = cx.C.get("sites_eligible", 0) / max(cx.C.get("sites_total", 1), 1)
    d = spec["device"]
    return {"violations": cx.V, "counters": cx.C, "worst": cx.W, "observations": {"skipped_" + k: v for k, v in cx.skip.items()},
            "classes": ["film=" + d["film"]["kind"], f"holes={len(d['holes'])}", f"terminals={len(d['terminals'])}", f"smooth={d['mesh']['smooth']}", "post=" + str(post),
                        "nonconvex_hole" if any(h.get("nonconvex") for h in d["holes"]) else "convex_or_no_hole", "units=" + d["length_units"]],
            "nontrivial": frac >= 0.5,
            "sample": {"sites": int(len(dev.mesh.sites)), "eligible_fraction": round(frac, 3), "skipped": cx.skip, "worst_over_gate": {k: round(v, 6) for k, v in cx.W.items()}}}
