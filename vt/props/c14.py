"""C14 Saved devices, meshes, solutions and parameters load back unchanged.

Differential monitor on objects: every object is written with the real to_hdf5 / pickle
and read back with the real from_hdf5 / pickle.loads; the monitor compares the clone
with the original field by field (bit-equal arrays, every option including None-valued
ones, every recorded step, dynamics, parameter values at random points and times) and
exercises it (identical short solve, terminal_info by name)."""
import copy
import dataclasses
import os
import pickle
import shutil
import tempfile

import numpy as np

from .. import sim, simmon, zoo
from . import _simcases as S
from . import c16

RULE = (
    "case kinds: device (holes/terminals/probes present or not; hdf5 with/without mesh, pickle, copy; mesh full vs compressed vs "
    "from_triangulation), solution (option grid with each Optional field None / set; in-place and copy saves; every recorded "
    "step; drives constant / callable / composite / time-dependent), parameter (expression trees to depth 3 through a Solution "
    "file). non-trivial = every comparison clause of the case kind evaluated; distinct = distinct spec"
)
REQUIRED_COUNTERS = ["device_roundtrips", "mesh_array_checks", "mesh_variant_checks", "solution_roundtrips", "option_field_checks", "step_data_checks", "parameter_value_checks", "solve_equivalence_checks"]
CASE_TIMEOUT = {"quick": 600, "thorough": 1800}
ASSUMPTIONS = ["h5py/pickle themselves are correct; timestamps (time_created) are compared via Solution.equals semantics, not bit-wise"]

MESH_ARRAYS = ("sites", "elements", "boundary_indices", "areas", "dual_sites")
EDGE_ARRAYS = ("centers", "edges", "boundary_edge_indices", "directions", "edge_lengths", "dual_edge_lengths", "normalized_directions")


def gen_cases(tier, seed):
    rng = np.random.default_rng(14_000 + seed)
    cases = []
    nd = 12 if tier == "quick" else 120
    for k in range(nd):
        nt = int([0, 2, 3, 4][k % 4]); nh = int([0, 1, 2][k % 3]) if nt == 0 or k % 2 else 0
        dev = zoo.gen_device(rng, n_terminals=nt, n_holes=nh, probes=int([0, 2, 3][k % 3]) , size="small", film_kind=None if nt == 0 else "box")
        dev["layer"]["conductivity"] = [None, 3.5][k % 2]
        dev["length_units"] = ["um", "nm", "mm"][(k // 2) % 3]  # (a label for the round trip; the numbers are not rescaled)
        if k % 2:
            dev["film"]["name"] = ["slab", "Nb strip", "film_1"][(k // 2) % 3]  # the film polygon has a name of the user's choosing
        cases.append({"kind": "device", "device": dev, "solve": bool(k % 4 == 0), "seed": int(rng.integers(1 << 30)), "cost": 4})
    ns = 14 if tier == "quick" else 150
    for k in range(ns):
        nt = int([2, 0, 2, 3][k % 4])
        dev = zoo.gen_device(rng, n_terminals=nt, n_holes=int(nt == 0 and k % 2), probes=2 if nt else 0, size="tiny")
        o = S.base_options(rng, adaptive=bool(k % 2), steps=30, screening=(k % 7 == 6))
        if not o["adaptive"]:
            o["auto_dt"] = {"steps": 30, "frac": 0.3}
        o["save_every"] = int([1, 5, 10][k % 3])
        if k % 3 == 1:
            dev["film"]["name"] = ["slab", "Nb strip"][(k // 3) % 2]
        # Optional / defaulted fields: None-valued and set
        o["terminal_psi"] = ["none", 0.0, 0.5, [0.3, 0.4], "none"][k % 5]
        o["output"] = ["file", "temp"][k % 2]
        o["skip_time"] = [0.0, 0.05][k % 2]
        o["max_solve_retries"] = [10, 3][k % 2]
        o["adaptive_window"] = [10, 4][(k // 2) % 2]
        o["adaptive_time_step_multiplier"] = [0.25, 0.5][(k // 3) % 2]
        o["progress_interval"] = [10**9, 7, "none"][(k // 2) % 3]  # (None is an accepted value: tqdm bar, no log lines)
        Ak = ["uniform", "uniform_float", "ramp", "shifted", "zero", "loop", "osc"][k % 7]
        drive = {"A": S.field_spec(rng, dev, o, Ak, b=0.2) if Ak != "shifted" else {"kind": "shifted", "B": 0.2, "c": [0.3, -0.1]},
                 "currents": S.current_spec(rng, dev, o, ["const", "callable", "decimal"][k % 3] if nt else "none", strength=0.1),
                 "epsilon": {"kind": ["one", "const", "spatial", "time"][k % 4], "value": 0.6}}
        cases.append({"kind": "solution", "device": dev, "options": o, "drive": drive, "seed": int(rng.integers(1 << 30)), "cost": 8})
    for k in range(1 if tier == "quick" else 4):
        # output_file given as a RELATIVE path (the process works in another directory)
        dev = zoo.gen_device(rng, n_terminals=int([2, 0][k % 2]), probes=0, size="tiny", smooth=0)
        dev["length_units"] = ["nm", "um"][k % 2]
        o = S.base_options(rng, adaptive=True, steps=30)
        o.update(output="file", save_every=5)
        drive = {"A": S.field_spec(rng, dev, o, "uniform", b=0.2), "currents": {"kind": "none"}, "epsilon": {"kind": "one"}}
        cases.append({"kind": "solution", "relative_output": True, "device": dev, "options": o, "drive": drive, "seed": int(rng.integers(1 << 30)), "cost": 8})
    for k in range(2 if tier == "quick" else 8):
        # memory-only Solution (temp output) of a screening run on a device without probe points: every per-step record that
        # exists must survive to_hdf5 / from_hdf5 (screening_iterations exists, mu / theta do not)
        dev = zoo.gen_device(rng, n_terminals=0, n_holes=int(k % 2), probes=0, size="tiny", smooth=0)
        dev["layer"]["lam"], dev["layer"]["d"] = 2.0, 0.1
        o = dict(solve_time=0.3, dt_init=1e-3, dt_max=0.02, adaptive=True, save_every=int([5, 1][k % 2]), field_units="mT", current_units="uA", output="temp",
                 include_screening=True, screening_tolerance=1e-3, max_iterations_per_step=3000, terminal_psi=0.0, skip_time=0.0, max_solve_retries=10,
                 adaptive_window=10, adaptive_time_step_multiplier=0.25, progress_interval=10**9)
        drive = {"A": S.field_spec(rng, dev, o, "uniform", b=0.2), "currents": {"kind": "none"}, "epsilon": {"kind": "one"}}
        cases.append({"kind": "solution", "device": dev, "options": o, "drive": drive, "seed": int(rng.integers(1 << 30)), "cost": 10})
    # expression trees through a Solution file
    d1 = c16.depth1()
    ops = list(c16.OPS)
    np_ = 6 if tier == "quick" else 40
    for k in range(np_):
        trees = []
        for _ in range(25):
            a = d1[int(rng.integers(len(d1)))]
            b = d1[int(rng.integers(len(d1)))] if rng.random() < 0.6 else ("leaf", c16.LEAVES[int(rng.integers(5))], 0)
            t = ("op", ops[int(rng.integers(5))], a, b) if rng.random() < 0.5 else ("op", ops[int(rng.integers(5))], b, a)
            if rng.random() < 0.4:
                t = ("op", ops[int(rng.integers(5))], t, d1[int(rng.integers(len(d1)))])
            trees.append(t)
        cases.append({"kind": "parameter", "trees": trees, "seed": int(rng.integers(1 << 30)), "cost": 6})
    # written by one interpreter, read by another (functions defined in the writer's __main__, names re-bound in the reader)
    cases.append({"kind": "cross_process", "seed": int(rng.integers(1 << 30)), "cost": 12})
    return cases


class Ctx:
    def __init__(self):
        self.V, self.C = [], {}

    def cnt(self, k, n=1):
        self.C[k] = self.C.get(k, 0) + n

    def viol(self, kind, mech, detail):
        if len(self.V) < 12:
            self.V.append({"kind": kind, "mechanism": mech, "detail": detail})


def cmp_mesh(cx, a, b, what):
    for name in MESH_ARRAYS:
        x, y = getattr(a, name), getattr(b, name)
        cx.cnt("mesh_array_checks")
        if x is None or y is None:
            if (x is None) != (y is None):
                cx.viol("mesh_array_missing", "mesh_array_differs", {"what": what, "array": name})
            continue
        if x.shape != y.shape or x.dtype != y.dtype or not np.array_equal(x, y):
            cx.viol("mesh_array_differs", "mesh_array_differs", {"what": what, "array": name, "dtypes": [str(x.dtype), str(y.dtype)], "shapes": [list(x.shape), list(y.shape)]})
    for name in EDGE_ARRAYS:
        x, y = getattr(a.edge_mesh, name), getattr(b.edge_mesh, name)
        cx.cnt("mesh_array_checks")
        if x.shape != y.shape or x.dtype != y.dtype or not np.array_equal(x, y):
            cx.viol("edge_mesh_array_differs", "mesh_array_differs", {"what": what, "array": name, "dtypes": [str(x.dtype), str(y.dtype)]})
    if (a.voronoi_polygons is None) != (b.voronoi_polygons is None):
        cx.viol("voronoi_polygons_missing", "mesh_array_differs", {"what": what})
    elif a.voronoi_polygons is not None:
        if len(a.voronoi_polygons) != len(b.voronoi_polygons) or any(not np.array_equal(p, q) for p, q in zip(a.voronoi_polygons, b.voronoi_polygons)):
            cx.viol("voronoi_polygons_differ", "mesh_array_differs", {"what": what})


def cmp_device(cx, a, b, what, mesh=True):
    cx.cnt("device_roundtrips")
    if not (a == b) or not (b == a):
        cx.viol("device_not_equal", "device_not_equal", {"what": what})
    for attr in ("name", "length_units"):
        if getattr(a, attr) != getattr(b, attr):
            cx.viol("device_attr_differs", "device_not_equal", {"what": what, "attr": attr})
    la, lb = a.layer, b.layer
    for attr in ("london_lambda", "coherence_length", "thickness", "conductivity", "u", "gamma", "z0"):
        if getattr(la, attr) != getattr(lb, attr) or type(getattr(la, attr)) is not type(getattr(lb, attr)) and not isinstance(getattr(lb, attr), (float, np.floating, int)):
            cx.viol("layer_attr_differs", "layer_attr_differs", {"what": what, "attr": attr, "values": [repr(getattr(la, attr)), repr(getattr(lb, attr))]})
    if not np.array_equal(a.film.points, b.film.points) or a.film.name != b.film.name or bool(a.film.mesh) != bool(b.film.mesh):
        cx.viol("film_differs", "polygon_differs", {"what": what})
    if [h.name for h in a.holes] != [h.name for h in b.holes] and sorted(h.name for h in a.holes) != sorted(h.name for h in b.holes):
        cx.viol("hole_names_differ", "polygon_differs", {"what": what})
    for ha in a.holes:
        hb = [h for h in b.holes if h.name == ha.name]
        if not hb or not np.array_equal(ha.points, hb[0].points):
            cx.viol("hole_differs", "polygon_differs", {"what": what, "hole": ha.name})
    if sorted(t.name for t in a.terminals) != sorted(t.name for t in b.terminals):
        cx.viol("terminal_names_differ", "polygon_differs", {"what": what})
    for ta in a.terminals:
        tb = [t for t in b.terminals if t.name == ta.name]
        if not tb or not np.array_equal(ta.points, tb[0].points) or bool(ta.mesh) != bool(tb[0].mesh):
            cx.viol("terminal_differs", "polygon_differs", {"what": what, "terminal": ta.name})
    pa, pb = a.probe_points, b.probe_points
    if (pa is None) != (pb is None) or (pa is not None and not np.array_equal(pa, pb)):
        cx.viol("probe_points_differ", "probe_points_differ", {"what": what})
    if mesh:
        if (a.mesh is None) != (b.mesh is None):
            cx.viol("mesh_presence_differs", "mesh_array_differs", {"what": what})
        elif a.mesh is not None:
            cmp_mesh(cx, a.mesh, b.mesh, what)
            ia = {t.name: t for t in a.terminal_info()}
            ib = {t.name: t for t in b.terminal_info()}
            if set(ia) != set(ib):
                cx.viol("terminal_info_names", "terminal_info_differs", {"what": what})
            for n in ia:
                if n in ib and (not np.array_equal(ia[n].site_indices, ib[n].site_indices) or not np.array_equal(ia[n].boundary_edge_indices, ib[n].boundary_edge_indices) or ia[n].length != ib[n].length):
                    cx.viol("terminal_info_differs", "terminal_info_differs", {"what": what, "terminal": n})
            pia, pib = a.probe_point_indices, b.probe_point_indices
            if pia != pib:
                cx.viol("probe_point_indices_differ", "probe_points_differ", {"what": what})


def short_solve_hashes(dev, seed):
    import tdgl
    from ..recorder import Recorder

    tm = simmon.TraceMonitor()
    opts = tdgl.SolverOptions(solve_time=0.1, dt_init=0.001, dt_max=0.01, adaptive=True, save_every=5, progress_interval=10**9)
    names = [t.name for t in dev.terminals]
    tc = None
    if len(names) >= 2:
        tc = {names[0]: 0.3, names[1]: -0.3}
    with Recorder([tm]):
        tdgl.solve(dev, opts, applied_vector_potential=0.05, terminal_currents=tc)
    return [u["hashes"] for st in tm.stages for u in st["updates"] if not u.get("failed")]


def case_device(spec):
    import h5py
    import tdgl
    from tdgl.finite_volume.mesh import Mesh

    cx = Ctx()
    dev, why = zoo.try_build_device(spec["device"])
    if dev is None:
        return {"violations": [], "counters": {"refused_mesh": 1}, "classes": ["refused"], "nontrivial": False}
    tmp = tempfile.mkdtemp(prefix="vt_c14_")
    try:
        # hdf5 with mesh (path form)
        p1 = os.path.join(tmp, "dev.h5")
        dev.to_hdf5(p1)
        d1 = tdgl.Device.from_hdf5(p1)
        cmp_device(cx, dev, d1, "hdf5_path")
        # group form, without mesh
        p2 = os.path.join(tmp, "dev2.h5")
        with h5py.File(p2, "x") as f:
            dev.to_hdf5(f.create_group("g"), save_mesh=False)
        with h5py.File(p2, "r") as f:
            d2 = tdgl.Device.from_hdf5(f["g"])
        cmp_device(cx, dev, d2, "hdf5_group_nomesh", mesh=False)
        if d2.mesh is not None:
            cx.viol("mesh_loaded_though_not_saved", "mesh_array_differs", {})
        # pickle
        d3 = pickle.loads(pickle.dumps(dev))
        cmp_device(cx, dev, d3, "pickle")
        # copy
        d4 = dev.copy()
        cmp_device(cx, dev, d4, "copy")
        # mesh: full vs compressed vs from_triangulation
        p3 = os.path.join(tmp, "mesh.h5")
        with h5py.File(p3, "x") as f:
            dev.mesh.to_hdf5(f.create_group("full"))
            dev.mesh.to_hdf5(f.create_group("compressed"), compress=True)
        with h5py.File(p3, "r") as f:
            m_full = Mesh.from_hdf5(f["full"])
            m_comp = Mesh.from_hdf5(f["compressed"])
            restorable = (Mesh.is_restorable(f["full"]), Mesh.is_restorable(f["compressed"]))
        m_tri = Mesh.from_triangulation(dev.mesh.sites, dev.mesh.elements)
        cx.cnt("mesh_variant_checks", 3)
        if restorable != (True, False):
            cx.viol("is_restorable_wrong", "is_restorable_wrong", {"got": list(restorable)})
        cmp_mesh(cx, dev.mesh, m_full, "mesh_full")
        cmp_mesh(cx, dev.mesh, m_comp, "mesh_compressed_recomputed")
        cmp_mesh(cx, dev.mesh, m_tri, "mesh_from_triangulation")
        # behaves identically
        if spec.get("solve"):
            cx.cnt("solve_equivalence_checks")
            h0 = short_solve_hashes(dev, spec["seed"])
            for nm, dd in (("hdf5", d1), ("pickle", d3)):
                if short_solve_hashes(dd, spec["seed"]) != h0:
                    cx.viol("reloaded_device_solves_differently", "reloaded_device_solves_differently", {"what": nm})
    finally:
        shutil.rmtree(tmp, ignore_errors=True)
    need = ["device_roundtrips", "mesh_array_checks", "mesh_variant_checks"]
    return {"violations": cx.V, "counters": cx.C, "classes": ["device", f"terminals={len(dev.terminals)}", f"holes={len(dev.holes)}", f"probes={0 if dev.probe_points is None else len(dev.probe_points)}"],
            "nontrivial": all(cx.C.get(k) for k in need), "sample": {"sites": int(len(dev.mesh.sites)), "roundtrips": cx.C.get("device_roundtrips")}}


def _param_values(p, pts, times):
    """Evaluate a drive object (Parameter / callable / number / dict) at fixed points."""
    from tdgl.parameter import Parameter

    out = []
    if isinstance(p, Parameter):
        for t in times:
            kw = {"t": t} if p.time_dependent else {}
            out.append(np.asarray(p(pts[:, 0], pts[:, 1], pts[:, 2], **kw)))
    elif callable(p):
        import inspect

        spec = inspect.getfullargspec(p)
        if spec.args and spec.args[0] == "r" or (not spec.args and False):
            for t in times:
                kw = {"t": t} if "t" in (spec.kwonlyargs or []) else {}
                try:
                    out.append(np.asarray(p(pts[:, :2], **kw)))
                except Exception:
                    out.append(np.asarray([p(r, **kw) for r in pts[:, :2]]))
        else:
            for t in times:
                out.append(p(t))
    else:
        out.append(p)
    return out


def _same(a, b):
    if isinstance(a, dict) and isinstance(b, dict):
        return a.keys() == b.keys() and all(_same(a[k], b[k]) for k in a)
    try:
        return np.array_equal(np.asarray(a), np.asarray(b), equal_nan=True)
    except Exception:
        return a == b


def cmp_solution(cx, a, b, what):
    import tdgl

    cx.cnt("solution_roundtrips")
    try:
        if not a.equals(b) or not b.equals(a):
            cx.viol("solution_not_equal", "solution_not_equal", {"what": what})
    except Exception as exc:
        cx.viol("solution_equals_raised", "solution_equals_raised", {"what": what, "error": repr(exc)[:200]})
    # every option field, including None-valued ones
    oa, ob = dataclasses.asdict(a.options), dataclasses.asdict(b.options)
    for k in oa:
        if k == "output_file":
            continue
        cx.cnt("option_field_checks")
        va, vb = oa[k], ob.get(k, "<missing>")
        same = (va is None and vb is None) or (va is not None and vb is not None and va == vb)
        if not same:
            mech = "option_none_not_preserved" if va is None else "option_field_differs"
            cx.viol("option_field_differs", mech, {"what": what, "field": k, "original": repr(va), "loaded": repr(vb)})
    if a.field_units != b.field_units or a.current_units != b.current_units:
        cx.viol("units_differ", "option_field_differs", {"what": what})
    cmp_device(cx, a.device, b.device, what + "/device")
    # every recorded step
    if tuple(int(x) for x in a.data_range) != tuple(int(x) for x in b.data_range):
        cx.viol("data_range_differs", "step_data_differs", {"what": what, "ranges": [list(map(int, a.data_range)), list(map(int, b.data_range))]})
    else:
        for s in range(int(a.data_range[0]), int(a.data_range[1]) + 1):
            a.solve_step = s
            b.solve_step = s
            cx.cnt("step_data_checks")
            da, db = a.tdgl_data, b.tdgl_data
            for f in dataclasses.fields(da):
                x, y = getattr(da, f.name), getattr(db, f.name)
                if f.name == "state":
                    x = {k: v for k, v in x.items() if k != "timestamp"}
                    y = {k: v for k, v in y.items() if k != "timestamp"}
                    if x.keys() != y.keys() or any(x[k] != y[k] for k in x):
                        cx.viol("step_state_differs", "step_data_differs", {"what": what, "step": s})
                elif isinstance(x, np.ndarray):
                    if not isinstance(y, np.ndarray) or x.shape != y.shape or x.dtype != y.dtype or not np.array_equal(x, y):
                        cx.viol("step_array_differs", "step_data_differs", {"what": what, "step": s, "field": f.name})
                elif x != y:
                    cx.viol("step_field_differs", "step_data_differs", {"what": what, "step": s, "field": f.name})
            if not np.array_equal(np.asarray(a.current_density.magnitude), np.asarray(b.current_density.magnitude)):
                cx.viol("current_density_differs", "step_data_differs", {"what": what, "step": s})
            # ground truth for "step s of this Solution": the group data/<s> of its file, read with h5py (an object that was
            # MOVED to step s shows what a fresh load of step s shows)
            for sol_, tag_ in ((a, "original"), (b, "loaded")):
                path_ = getattr(sol_, "path", None)
                if not path_ or not os.path.exists(path_):
                    continue
                import h5py

                with h5py.File(path_, "r") as f_:
                    if "data" not in f_ or str(s) not in f_["data"]:
                        continue
                    grp_ = f_["data"][str(s)]
                    cx.cnt("step_vs_file_checks")
                    for f in dataclasses.fields(sol_.tdgl_data):
                        if f.name in grp_:
                            x = getattr(sol_.tdgl_data, f.name)
                            y = np.array(grp_[f.name])
                            if not isinstance(x, np.ndarray) or x.shape != y.shape or not np.array_equal(x, y, equal_nan=True):
                                cx.viol("step_array_ne_file", "step_data_differs", {"what": what, "which": tag_, "step": s, "field": f.name, "reached_by": "solve_step setter"})
        a.solve_step = -1
        b.solve_step = -1
    # dynamics (an accessor that works on the original and raises on the loaded object is a difference in behaviour)
    da = a.dynamics
    try:
        db = b.dynamics
    except Exception as exc:  # noqa: BLE001
        cx.viol("loaded_solution_raises", "loaded_solution_raises", {"what": what, "accessor": "dynamics", "error": repr(exc)[:200]})
        db = None
    for f in ("dt", "time", "mu", "theta", "screening_iterations"):
        if db is None:
            break
        x, y = getattr(da, f), getattr(db, f)
        if (x is None) != (y is None) or (x is not None and (np.asarray(x).shape != np.asarray(y).shape or not np.array_equal(x, y))):
            cx.viol("dynamics_differs", "dynamics_differs", {"what": what, "field": f})
    ta = a.times
    try:
        tb = b.times
    except Exception as exc:  # noqa: BLE001
        cx.viol("loaded_solution_raises", "loaded_solution_raises", {"what": what, "accessor": "times", "error": repr(exc)[:200]})
        tb = ta
    if (ta is None) != (tb is None) or (ta is not None and not np.array_equal(ta, tb)):
        cx.viol("times_differ", "dynamics_differs", {"what": what})
    # parameters evaluate to the same values
    rng = np.random.default_rng(0)
    pts = rng.uniform(-2, 2, (7, 3))
    times = [0.0, 0.013, 0.4]
    for name in ("applied_vector_potential", "terminal_currents", "disorder_epsilon"):
        pa, pb = getattr(a, name), getattr(b, name)
        cx.cnt("parameter_value_checks")
        try:
            va = _param_values(pa, pts, times)
        except Exception:
            continue
        try:
            vb = _param_values(pb, pts, times)
        except Exception as exc:
            cx.viol("loaded_parameter_raises", "loaded_parameter_raises", {"what": what, "name": name, "error": repr(exc)[:200]})
            continue
        if len(va) != len(vb) or any(not _same(x, y) for x, y in zip(va, vb)):
            cx.viol("loaded_parameter_value_differs", "loaded_parameter_value_differs", {"what": what, "name": name})
        ta_, tb_ = getattr(pa, "time_dependent", None), getattr(pb, "time_dependent", None)
        if ta_ != tb_:
            cx.viol("loaded_parameter_flag_differs", "loaded_parameter_flag_differs", {"what": what, "name": name, "flags": [ta_, tb_]})
        if type(pa) is not type(pb) and not (callable(pa) and callable(pb)):
            cx.viol("loaded_parameter_type_differs", "loaded_parameter_type_differs", {"what": what, "name": name, "types": [type(pa).__name__, type(pb).__name__]})


def _relative_output_case(spec, workdir):
    """solve() with output_file='results/run.h5' relative to the working directory; the loaded Solution carries the same options."""
    import tdgl

    cx = Ctx()
    dev, why = zoo.try_build_device(spec["device"])
    if dev is None:
        shutil.rmtree(workdir, ignore_errors=True)
        return {"violations": [], "counters": {"refused_mesh": 1}, "classes": ["refused"], "nontrivial": False}
    sp = sim.resolve_auto_dt(spec, dev)
    cwd = os.getcwd()
    os.chdir(workdir)
    try:
        os.makedirs("results", exist_ok=True)
        opts = sim.build_options(sp["options"], output_file=os.path.join("results", "run.h5"))
        avp, tc, eps = sim.build_drive(sp["drive"], dev, opts)
        sol = tdgl.solve(dev, opts, applied_vector_potential=avp, terminal_currents=tc, disorder_epsilon=eps)
        loaded = tdgl.Solution.from_hdf5(sol.path)
        cmp_solution(cx, sol, loaded, "relative_output")
        cx.cnt("option_field_checks")
        if loaded.options.output_file != sol.options.output_file:
            cx.viol("option_field_differs", "option_field_differs", {"what": "relative_output", "field": "output_file", "original": repr(sol.options.output_file), "loaded": repr(loaded.options.output_file)})
        if dataclasses.asdict(loaded.options) != dataclasses.asdict(sol.options):
            cx.viol("options_not_equal", "option_field_differs", {"what": "relative_output"})
    except Exception as exc:  # noqa: BLE001
        return {"status": "harness_error", "error": "relative-output case failed: " + repr(exc)[:300]}
    finally:
        os.chdir(cwd)
        shutil.rmtree(workdir, ignore_errors=True)
    return {"violations": cx.V, "counters": cx.C, "classes": ["solution", "output=relative_path"], "nontrivial": cx.C.get("option_field_checks", 0) > 0,
            "sample": {"option_fields": cx.C.get("option_field_checks", 0)}}


def case_solution(spec):
    import tdgl

    cx = Ctx()
    workdir = tempfile.mkdtemp(prefix="vt_c14s_")
    keep = os.path.join(workdir, "keep")
    os.makedirs(keep)
    if spec.get("relative_output"):
        return _relative_output_case(spec, workdir)
    rr = sim.run_sim(spec, [], workdir=os.path.join(workdir, "run") if False else None, keep_dir=True)
    if rr.refused:
        shutil.rmtree(workdir, ignore_errors=True)
        return {"violations": [], "counters": {"refused_mesh": 1}, "classes": ["refused"], "nontrivial": False}
    try:
        if rr.exception is not None or rr.solution is None:
            if isinstance(rr.exception, RuntimeError) and "converge" in str(rr.exception):
                return {"violations": [], "counters": {"runs_ending_in_nonconvergence": 1}, "classes": ["nonconvergence"], "nontrivial": False}
            return {"status": "harness_error", "error": "solve failed: " + repr(rr.exception)[:300]}
        sol = rr.solution
        # copy save (works whether or not the original file still exists)
        p_copy = os.path.join(keep, "copy.h5")
        sol.to_hdf5(p_copy)
        l1 = tdgl.Solution.from_hdf5(p_copy)
        # a temp-dir solution has no file any more: compare what can be compared
        on_disk = sol.saved_on_disk
        if on_disk:
            cmp_solution(cx, sol, l1, "copy")
            sol.to_hdf5()  # in place
            l2 = tdgl.Solution.from_hdf5(sol.path)
            cmp_solution(cx, sol, l2, "in_place")
            cmp_solution(cx, l1, l2, "copy_vs_in_place")
            # loading another step
            l3 = tdgl.Solution.from_hdf5(sol.path, solve_step=0)
            if l3.solve_step != int(sol.data_range[0]):
                cx.viol("solve_step_not_honoured", "solve_step_not_honoured", {"got": int(l3.solve_step)})
            # second generation: the LOADED copy (its option values are what the file gave back, e.g. numpy scalars) saved and
            # loaded again still equals the original
            p2 = os.path.join(keep, "copy2.h5")
            try:
                l1.to_hdf5(p2)
                l4 = tdgl.Solution.from_hdf5(p2)
            except Exception as exc:  # noqa: BLE001
                cx.viol("loaded_solution_raises", "loaded_solution_raises", {"what": "second_generation", "accessor": "to_hdf5/from_hdf5", "error": repr(exc)[:200]})
            else:
                cmp_solution(cx, sol, l4, "second_generation")
            # the destination already holds an OLDER, different result (the usual 'overwrite latest.h5'): what is read back is
            # the solution that was saved, not a mixture
            if spec.get("overwrite_existing", True):
                older = copy.deepcopy(spec)
                older["options"] = dict(older["options"], save_every=max(1, int(older["options"].get("save_every", 5)) + 2))
                if "auto_dt" in older["options"]:
                    older["options"]["auto_dt"] = dict(older["options"]["auto_dt"], steps=max(4, older["options"]["auto_dt"]["steps"] // 2))
                else:
                    older["options"]["solve_time"] = 0.5 * older["options"]["solve_time"]
                r0 = sim.run_sim(older, [], device=rr.device, keep_dir=True)
                if r0.solution is not None and r0.exception is None:
                    p_old = os.path.join(keep, "latest.h5")
                    r0.solution.to_hdf5(p_old)
                    cx.cnt("overwrite_existing_checks")
                    try:
                        sol.to_hdf5(p_old)
                        l5 = tdgl.Solution.from_hdf5(p_old)
                    except Exception as exc:  # noqa: BLE001
                        cx.viol("loaded_solution_raises", "loaded_solution_raises", {"what": "overwrite_existing", "accessor": "to_hdf5/from_hdf5", "error": repr(exc)[:200]})
                    else:
                        cmp_solution(cx, sol, l5, "overwrite_existing")
                shutil.rmtree(r0.outdir, ignore_errors=True)
        else:
            # only the final step was kept in memory
            cx.cnt("solution_roundtrips")
            oa, ob = dataclasses.asdict(sol.options), dataclasses.asdict(l1.options)
            for k in oa:
                if k == "output_file":
                    continue
                cx.cnt("option_field_checks")
                va, vb = oa[k], ob.get(k)
                if not ((va is None and vb is None) or (va is not None and vb is not None and va == vb)):
                    cx.viol("option_field_differs", "option_none_not_preserved" if va is None else "option_field_differs",
                            {"what": "memory_only_copy", "field": k, "original": repr(va), "loaded": repr(vb)})
            da, db = sol.tdgl_data, l1.tdgl_data
            cx.cnt("step_data_checks")
            for f in ("psi", "mu", "supercurrent", "normal_current", "induced_vector_potential", "applied_vector_potential", "epsilon"):
                x, y = getattr(da, f), getattr(db, f)
                if not np.array_equal(x, y):
                    cx.viol("step_array_differs", "step_data_differs", {"what": "memory_only_copy", "field": f})
            for f in ("dt", "time", "mu", "theta", "screening_iterations"):
                x, y = getattr(sol.dynamics, f), getattr(l1.dynamics, f)
                cx.cnt("memory_only_dynamics_checks")
                if (x is None) != (y is None) or (x is not None and (np.asarray(x).shape != np.asarray(y).shape or not np.array_equal(x, y))):
                    cx.viol("dynamics_differs", "dynamics_differs", {"what": "memory_only_copy", "field": f})
            ta, tb = sol.times, l1.times
            if (ta is None) != (tb is None) or (ta is not None and not np.array_equal(ta, tb)):
                cx.viol("times_differ", "dynamics_differs", {"what": "memory_only_copy"})
            if sol.field_units != l1.field_units or sol.current_units != l1.current_units:
                cx.viol("units_differ", "option_field_differs", {"what": "memory_only_copy"})
            # a second generation: the loaded copy saved and loaded again
            p2 = os.path.join(keep, "copy2.h5")
            l1.to_hdf5(p2)
            cmp_solution(cx, l1, tdgl.Solution.from_hdf5(p2), "memory_only_copy/second_generation")
            cmp_device(cx, sol.device, l1.device, "memory_only_copy/device")
            cx.cnt("parameter_value_checks")
    finally:
        rr.cleanup = lambda: None
        shutil.rmtree(rr.outdir, ignore_errors=True)
        shutil.rmtree(workdir, ignore_errors=True)
    o = spec["options"]
    return {"violations": cx.V, "counters": cx.C,
            "classes": ["solution", "terminal_psi=" + str(o.get("terminal_psi")), "output=" + o.get("output", "file"), "A=" + spec["drive"]["A"]["kind"],
                        "I=" + spec["drive"]["currents"]["kind"], "eps=" + spec["drive"]["epsilon"]["kind"], f"save_every={o['save_every']}"],
            "nontrivial": cx.C.get("option_field_checks", 0) > 0 and cx.C.get("step_data_checks", 0) > 0,
            "sample": {"steps_compared": cx.C.get("step_data_checks", 0), "option_fields": cx.C.get("option_field_checks", 0)}}


def case_parameter(spec):
    """Composite parameters through a Solution file (cloudpickled blob) and back."""
    import h5py
    import tdgl

    cx = Ctx()
    rng = np.random.default_rng(spec["seed"])
    dev = zoo.build_device(zoo.gen_device(rng, n_terminals=0, probes=0, size="tiny", smooth=0, film_kind="box", gamma=1.0))
    opts = tdgl.SolverOptions(solve_time=0.02, dt_init=0.001, dt_max=0.005, adaptive=True, save_every=2, progress_interval=10**9)
    base = tdgl.solve(dev, opts, applied_vector_potential=0.05)  # a real solution to carry the parameters
    tmp = tempfile.mkdtemp(prefix="vt_c14p_")
    try:
        xs, ys, zs = rng.uniform(-1, 1, 5), rng.uniform(-1, 1, 5), rng.uniform(-1, 1, 5)
        # tdgl.parameter.Constant leaves (2-D and 3-D) alone and inside composites, through pickle / cloudpickle / a Solution file
        import cloudpickle
        from tdgl.parameter import Constant

        consts = {"C2": lambda: Constant(1.5), "C3": lambda: Constant(-0.75, dimensions=3)}
        exprs = [("C3",), ("C2",), ("C3", "*", 2.0), (3, "+", "C3"), ("C3", "-", "P3"), ("P3", "*", "C3"), ("C2", "+", "P2"), (("C3", "*", "PT"), "+", "C3")]

        def cbuild(e):
            if isinstance(e, tuple) and len(e) == 1:
                return cbuild(e[0])
            if isinstance(e, tuple):
                return c16.OPS[e[1]](cbuild(e[0]), cbuild(e[2]))
            if isinstance(e, str):
                return consts[e]() if e in consts else c16.make_leaf(e)
            return e

        for e in exprs:
            obj = cbuild(e)
            three_d = "3" in repr(e) or "PT" in repr(e)
            kw = {"t": 0.37} if "PT" in repr(e) else {}
            args = (xs, ys, zs) if three_d else (xs, ys)
            want = obj(*args, **kw)
            s2 = copy.copy(base)
            s2.applied_vector_potential = obj
            p2 = os.path.join(tmp, "const.h5")
            # (the standard pickler cannot serialise a bare Constant - its function is a local closure; the library itself uses
            # cloudpickle, and composites cloudpickle their operands, so plain pickle is demanded of composites only)
            for how, fn in ((("pickle", lambda o: pickle.loads(pickle.dumps(o))),) if len(e) == 3 else ()) + (("cloudpickle", lambda o: cloudpickle.loads(cloudpickle.dumps(o))), ("deepcopy", copy.deepcopy),
                            ("solution_file", lambda o: (s2.to_hdf5(p2), tdgl.Solution.from_hdf5(p2).applied_vector_potential)[1])):  # noqa: E501
                cx.cnt("parameter_value_checks")
                try:
                    if os.path.exists(p2):
                        os.remove(p2)
                    clone = fn(obj)
                    got = clone(*args, **kw)
                    if not np.array_equal(np.asarray(got), np.asarray(want)) or not (clone == obj):
                        cx.viol("loaded_parameter_value_differs", "loaded_parameter_value_differs", {"expr": repr(e), "how": how})
                except Exception as exc:  # noqa: BLE001
                    cx.viol("loaded_parameter_raises", "loaded_parameter_raises", {"expr": repr(e), "how": how, "error": repr(exc)[:200]})
        for i, tr in enumerate(spec["trees"]):
            tree = c16._tuplify(tr)
            try:
                comp = c16.build(tree)
            except Exception:
                continue
            if not c16.has_param(tree):
                continue
            s = copy.copy(base)
            s.applied_vector_potential = comp
            p = os.path.join(tmp, f"s{i}.h5")
            try:
                s.to_hdf5(p)
                l = tdgl.Solution.from_hdf5(p)
            except Exception as exc:
                cx.viol("solution_with_composite_failed", "solution_with_composite_failed", {"tree": c16.text(tree), "error": repr(exc)[:200]})
                continue
            clone = l.applied_vector_potential
            cx.cnt("parameter_value_checks")
            try:
                flag = clone.time_dependent
            except Exception as exc:
                cx.viol("loaded_composite_flag_missing", "loaded_parameter_flag_differs", {"tree": c16.text(tree), "error": repr(exc)[:160]})
                continue
            if bool(flag) != c16.td(tree):
                cx.viol("loaded_composite_flag_wrong", "loaded_parameter_flag_differs", {"tree": c16.text(tree)})
            if not (clone == comp):
                cx.viol("loaded_composite_not_equal", "loaded_parameter_value_differs", {"tree": c16.text(tree)})
            try:
                with np.errstate(all="ignore"):
                    want = c16.ref_eval(tree, xs, ys, zs, 0.37)
            except Exception:
                want = None
            if want is not None:
                try:
                    with np.errstate(all="ignore"):
                        got = clone(xs, ys, zs, 0.37)
                    if not c16._eq(got, want):
                        cx.viol("loaded_composite_value_differs", "loaded_parameter_value_differs", {"tree": c16.text(tree)})
                except Exception as exc:
                    cx.viol("loaded_composite_raises", "loaded_parameter_raises", {"tree": c16.text(tree), "error": repr(exc)[:200]})
    finally:
        shutil.rmtree(tmp, ignore_errors=True)
    return {"violations": cx.V, "counters": cx.C, "classes": ["parameter_via_solution_file"], "nontrivial": cx.C.get("parameter_value_checks", 0) > 0,
            "nontrivial_n": cx.C.get("parameter_value_checks", 0), "key": f"params{spec['seed']}",
            "sample": {"trees": len(spec["trees"]), "round_tripped": cx.C.get("parameter_value_checks", 0)}}


def case_cross_process(spec):
    """Parameters and a Solution written by a script (its functions live in __main__) and read back by ANOTHER interpreter
    in which those names mean something else: 'written to disk and read back' has to survive the end of the session."""
    import json
    import subprocess
    import sys

    from .. import env

    cx = Ctx()
    tmp = tempfile.mkdtemp(prefix="vt_c14x_")
    here = os.path.join(os.path.dirname(os.path.dirname(os.path.abspath(__file__))), "xproc")
    e = dict(os.environ, PYTHONPATH=env.REPO, TQDM_DISABLE="1", NUMBA_NUM_THREADS="1")
    try:
        w = subprocess.run([sys.executable, os.path.join(here, "c14_writer.py"), tmp], env=e, cwd=tmp, capture_output=True, text=True, timeout=900)
        if w.returncode != 0:
            return {"status": "harness_error", "error": "cross-process writer failed: " + w.stderr[-400:]}
        r = subprocess.run([sys.executable, os.path.join(here, "c14_reader.py"), tmp], env=e, cwd=tmp, capture_output=True, text=True, timeout=900)
        if r.returncode != 0 or not os.path.exists(os.path.join(tmp, "report.json")):
            return {"status": "harness_error", "error": "cross-process reader failed: " + r.stderr[-400:]}
        for item in json.load(open(os.path.join(tmp, "report.json"))):
            cx.cnt("cross_process_checks")
            cx.cnt("parameter_value_checks")
            if "error" in item:
                cx.viol("loaded_parameter_raises", "loaded_parameter_raises", dict(item, what="cross_process"))
            elif not item["equal"]:
                cx.viol("loaded_parameter_value_differs", "loaded_parameter_value_differs", dict(item, what="cross_process"))
            elif not item["time_dependent_same"]:
                cx.viol("loaded_parameter_flag_differs", "loaded_parameter_flag_differs", dict(item, what="cross_process"))
    finally:
        shutil.rmtree(tmp, ignore_errors=True)
    return {"violations": cx.V, "counters": cx.C, "classes": ["cross_process"], "nontrivial": cx.C.get("cross_process_checks", 0) > 0,
            "sample": {"objects_read_back_in_another_interpreter": cx.C.get("cross_process_checks", 0)}}


def run_case(spec):
    return {"device": case_device, "solution": case_solution, "parameter": case_parameter, "cross_process": case_cross_process}[spec["kind"]](spec)
