"""C05 Recorded frames, times and per-step records are consistent.

Reference model over a trace, checked at the file boundary: the flight recorder logs
every update return (dt used, hash of every returned array, probe readouts) and every
save; vt/ref/runspec.py computes from the dt sequence alone which frames must exist
and what each must contain; vt/runcheck.py compares the HDF5 file (h5py) and the
loaded Solution with that."""
import os

import numpy as np

from .. import runcheck, sim, simmon, zoo
from . import _simcases as S

RULE = (
    "case = one complete run of tdgl.solve on a ~40-80-site device with save interval k and a solve time giving N steps; "
    "thorough enumerates k in 1..N+2 for N in 0..12 x {fixed, adaptive with forced retries} x thermalisation x "
    "{0,2,3 probes} x screening (sampled on the last three axes); quick is a seeded sample that always contains "
    "k=1, N mod k = 0, N mod k != 0, N < k and N = 0. non-trivial = run with N >= 1 in which every frame's "
    "contents, labels and per-step records were compared with the recorded update returns; distinct = (N, k, mode, "
    "thermalisation, probes, screening); plus runs with the live monitor requested (refresh interval always elapsed)"
)
REQUIRED_COUNTERS = ["runs_checked", "frame_content_checks", "record_checks", "solution_checks", "stop_rule_checks"]
CASE_TIMEOUT = {"quick": 600, "thorough": 1200}
EXHAUSTIVE = {"quick": False, "thorough": True}
ASSUMPTIONS = ["the wrappers observe the values returned by TDGLSolver.update; hashes are sha256 over bytes+dtype+shape"]


def _device(rng, probes, screening):
    return zoo.gen_device(rng, n_terminals=2 if probes else int(rng.choice([0, 2])), probes=probes, size="tiny", smooth=0, gamma=float(rng.choice([1.0, 10.0])))


def _tiny(case, dt):
    """The same fixed-step case with a tiny time step (no auto_dt: tiny steps are stable on any mesh)."""
    o = case["options"]
    N = case["N_target"]
    ts = o.get("auto_dt", {}).get("therm_steps", 0)
    o.pop("auto_dt", None)
    o.update(dt_init=dt, dt_max=max(0.1, dt), solve_time=max(N * dt - dt / 2, 0.0), adaptive=False)
    if case["therm"]:
        o["skip_time"] = max(ts, 3) * dt - dt / 2
    case["drive"]["A"] = {"kind": "uniform", "B": case["drive"]["A"].get("B", 0.05)}
    case["tiny_dt"] = dt
    return case


def _case(rng, N, k, mode, therm, probes, screening):
    dev = _device(rng, probes, screening)
    dt = float(rng.choice([0.002, 0.005, 0.0037]))
    if mode == "fixed":
        o = dict(solve_time=max(N * dt - dt / 2, 0.0), dt_init=dt, dt_max=0.1, adaptive=False,
                 auto_dt={"steps": N, "frac": float(rng.choice([0.2, 0.35])), "exact": True, "therm_steps": int(rng.choice([3, 5])) if therm else 0})
    else:
        # adaptive with large initial step so that refusals (retries) happen
        o = dict(solve_time=float(N) * 0.12, dt_init=0.25, dt_max=0.5, adaptive=True, adaptive_window=int(rng.choice([1, 2, 3])),
                 adaptive_time_step_multiplier=float(rng.choice([0.25, 0.5])), max_solve_retries=20)
    o.update(save_every=int(k), field_units="mT", current_units="uA", output=str(rng.choice(["file", "temp"])))
    if therm:
        o["skip_time"] = float(rng.choice([3, 5])) * (dt if mode == "fixed" else 0.12)  # (fixed mode: overridden by auto_dt.therm_steps)
    if screening:
        o.update(include_screening=True, screening_tolerance=1e-2, max_iterations_per_step=500)
    drive = {"A": S.field_spec(rng, dev, o, "uniform", b=0.15 if mode == "fixed" else 0.9)}
    if dev["terminals"] and rng.random() < 0.6:
        drive["currents"] = S.current_spec(rng, dev, o, "const", strength=0.2)
    if rng.random() < 0.3:
        drive["A"] = S.field_spec(rng, dev, o, "ramp", b=0.15, T=max(o["solve_time"], 0.1))
    return {"device": dev, "options": o, "drive": drive, "N_target": N, "k": k, "mode": mode, "therm": therm, "probes": probes,
            "screening": screening, "cost": 3 + 10 * screening}


def _seeded(rng, j):
    """A run started from the final state of an earlier run (one Solution object used as the seed of TWO continuations, the second
    one monitored): frame 0 (step 0, time 0) holds the state the seed's FILE holds - after zero updates of this run."""
    N = int(rng.integers(3, 10)); k = int([1, 2, N + 1, 3][j % 4])
    c_ = _case(rng, N, k, ["fixed", "adaptive"][j % 2], False, int([2, 0][j % 2]), bool(j % 4 != 3))
    c_["options"]["output"] = "file"
    c_["seeded_twice"] = True
    if j % 4 in (0, 1):
        c_["seed_frame"] = "middle"
    c_["cost"] = 3 * c_["cost"]
    return c_


def gen_cases(tier, seed):
    rng = np.random.default_rng(5_000 + seed)
    cases = []
    if tier == "quick":
        must = [(0, 1), (0, 3), (1, 1), (5, 1), (6, 3), (7, 3), (4, 9), (12, 5), (12, 4), (3, 5), (9, 10), (10, 12)]
        for (N, k) in must:
            for mode in ("fixed", "adaptive"):
                cases.append(_case(rng, N, k, mode, bool(rng.integers(2)), int(rng.choice([0, 2, 3])), False))
        for _ in range(110):
            N = int(rng.integers(0, 13)); k = int(rng.integers(1, N + 3))
            cases.append(_case(rng, N, k, str(rng.choice(["fixed", "adaptive"])), bool(rng.integers(2)), int(rng.choice([0, 2, 3])), bool(rng.random() < 0.12)))
        for _ in range(6):
            N = int(rng.integers(30, 90)); k = int(rng.choice([1, 7, 10, 25]))
            cases.append(_case(rng, N, k, "fixed", False, 2, False))
        for j in range(4):
            # the requested output file name is already taken by an EARLIER run (other length, other save interval): the new
            # run's frames, times and records are its own
            N = int(rng.integers(3, 13)); k = int(rng.integers(1, N + 2))
            c_ = _case(rng, N, k, ["fixed", "adaptive"][j % 2], bool(j % 2), int([0, 2][j % 2]), False)
            c_["options"]["output"] = "file"
            c_["occupied"] = True
            cases.append(c_)
        for j in range(6):
            # very small time steps (1e-12 .. 1e-8): a step is a step however small
            N = int(rng.integers(3, 13)); k = int(rng.integers(1, N + 2))
            cases.append(_tiny(_case(rng, N, k, "fixed", bool(j % 2), int([0, 2, 3][j % 3]), False), float([1e-9, 1e-12, 3e-9, 1e-8, 2e-10, 1e-11][j])))
        for j in range(4):
            # screening + adaptive: the step is refused in a LATER screening iteration of some steps (the time step used, returned,
            # recorded and added to the clock is the reduced one)
            N = int(rng.integers(6, 13)); k = int([1, 3, N + 1, 2][j])
            c_ = _case(rng, N, k, "adaptive", bool(j % 2), int([2, 0, 3, 2][j]), True)
            c_["options"].update(dt_init=0.02, dt_max=0.1, solve_time=0.06 * N, max_iterations_per_step=2000)
            c_["refuse_in_later_screening_iteration"] = [1, 2, 4, 5]
            cases.append(c_)
        for j in range(6):
            # the live monitor is requested with a refresh interval (wall-clock seconds) that has always elapsed: which frames
            # exist is still decided by the save interval alone (the plotting process itself is not started by the harness)
            N = int(rng.integers(4, 13)); k = int([N + 1, 3, 5][j % 3])
            c_ = _case(rng, N, k, ["fixed", "adaptive"][j % 2], bool(j % 4 == 3), int([0, 2][j % 2]), False)
            c_["options"].update(output="file", monitor=True, monitor_update_interval=1e-9)
            cases.append(c_)
        for j in range(4):
            cases.append(_seeded(rng, j))
    else:
        for j in range(16):
            cases.append(_seeded(rng, j))
        for j in range(30):
            N = int(rng.integers(6, 13)); k = int([1, 3, N + 1, 2][j % 4])
            c_ = _case(rng, N, k, "adaptive", bool(j % 2), int([2, 0, 3, 2][j % 4]), True)
            c_["options"].update(dt_init=0.02, dt_max=0.1, solve_time=0.06 * N, max_iterations_per_step=2000)
            c_["refuse_in_later_screening_iteration"] = sorted(set(int(x) for x in rng.integers(0, N, size=4)))
            cases.append(c_)
        for j in range(40):
            N = int(rng.integers(4, 13)); k = int([N + 1, 3, 5, 1][j % 4])
            c_ = _case(rng, N, k, ["fixed", "adaptive"][j % 2], bool(j % 4 == 3), int([0, 2, 3][j % 3]), False)
            c_["options"].update(output=["file", "temp"][j % 5 == 4], monitor=True, monitor_update_interval=float([1e-9, 1e-3][j % 7 == 6]))
            cases.append(c_)
        for N in range(0, 13):
            for k in range(1, N + 3):
                for mode in ("fixed", "adaptive"):
                    for therm in (False, True):
                        for probes in (0, 2, 3):
                            cases.append(_case(rng, N, k, mode, therm, probes, bool(rng.random() < 0.1)))
        for j in range(60):
            N = int(rng.integers(1, 13)); k = int(rng.integers(1, N + 3))
            cases.append(_tiny(_case(rng, N, k, "fixed", bool(j % 2), int([0, 2, 3][j % 3]), False), float(10.0 ** rng.uniform(-12, -8))))
        for _ in range(40):
            N = int(rng.integers(30, 200)); k = int(rng.choice([1, 3, 7, 10, 25, 100]))
            cases.append(_case(rng, N, k, str(rng.choice(["fixed", "adaptive"])), bool(rng.integers(2)), int(rng.choice([0, 2, 3])), False))
    return cases


class _Refuser:
    """Injects refusals of solve_for_psi_squared in a LATER screening iteration of chosen steps (in a real run the link variables
    change with the induced potential between iterations, so a step accepted in iteration 0 can be refused in iteration 1)."""

    def __init__(self, steps):
        self.steps = set(int(x) for x in steps)
        self.done = set()
        self.injected = 0

    def maybe_fail(self, point, **info):
        return None

    def refuse_spsq(self, stage, step, n, screening_iteration):
        if stage == "Simulating" and step in self.steps and screening_iteration >= 1 and (stage, step) not in self.done:
            self.done.add((stage, step))
            self.injected += 1
            return True
        return False


def run_case(spec):
    tm = simmon.TraceMonitor()
    workdir = None
    refuser = _Refuser(spec["refuse_in_later_screening_iteration"]) if spec.get("refuse_in_later_screening_iteration") else None
    if spec.get("occupied"):
        import copy
        import tempfile

        workdir = tempfile.mkdtemp(prefix="vt_c05_")
        other = copy.deepcopy(spec)
        other["options"]["save_every"] = int(other["options"]["save_every"]) + 1
        other["options"]["solve_time"] = 0.5 * other["options"]["solve_time"]
        if "auto_dt" in other["options"]:
            other["options"]["auto_dt"] = dict(other["options"]["auto_dt"], steps=max(1, other["options"]["auto_dt"]["steps"] // 2))
        r0 = sim.run_sim(other, [], workdir=workdir, keep_dir=True)
        if r0.refused:
            return {"violations": [], "counters": {"refused_mesh": 1}, "classes": ["refused"], "nontrivial": False}
    seed_sol = seed_frame = None
    seed_dirs = []
    V0 = []
    if spec.get("seeded_twice"):
        import tempfile

        ra = sim.run_sim(spec, [], keep_dir=True)
        if ra.refused:
            return {"violations": [], "counters": {"refused_mesh": 1}, "classes": ["refused"], "nontrivial": False}
        seed_dirs.append(ra.outdir)
        if ra.exception is not None or ra.solution is None:
            import shutil

            shutil.rmtree(ra.outdir, ignore_errors=True)
            return {"violations": [], "counters": {"seed_run_failed": 1}, "classes": ["seed_run_failed"], "nontrivial": False, "sample": {"exception": repr(ra.exception)[:160]}}
        seed_sol = ra.solution
        frames_a = runcheck.read_frames(seed_sol.path)[0]
        seed_frame = frames_a[-1]  # what the file holds under the seed's final step
        if spec.get("seed_frame") == "middle" and len(frames_a) >= 3:
            # the caller starts from an EARLIER recorded state of that run: the frame it selected is the seed
            jf_ = len(frames_a) // 2
            seed_sol.solve_step = jf_
            seed_frame = frames_a[jf_]
        r1 = sim.run_sim(spec, [], device=ra.device, seed_solution=seed_sol, keep_dir=True)  # first continuation (not monitored)
        seed_dirs.append(r1.outdir)
        for m_ in getattr(r1, "mutated", None) or []:
            V0.append({"kind": "solve_changes_callers_inputs", "mechanism": "solve_changes_callers_inputs", "detail": m_})
    rr = sim.run_sim(spec, [tm, simmon.Sanitizer()], workdir=workdir, failpoints=refuser, **({"device": ra.device, "seed_solution": seed_sol} if seed_sol is not None else {}))
    if rr.refused:
        return {"violations": [], "counters": {"refused_mesh": 1}, "classes": ["refused"], "nontrivial": False}
    V, C = list(V0), {}
    if seed_sol is not None:
        import shutil

        C["seeded_continuations"] = 1
        for m_ in getattr(rr, "mutated", None) or []:
            V.append({"kind": "solve_changes_callers_inputs", "mechanism": "solve_changes_callers_inputs", "detail": m_})
        p0 = getattr(rr.solution, "path", None)
        if p0 is not None and os.path.exists(p0):
            f0 = runcheck.read_frames(p0)[0][0]
            names = ["psi", "mu", "supercurrent", "normal_current"] + (["induced_vector_potential"] if spec["screening"] else [])
            bad = [n_ for n_ in names if f0["hashes"].get(n_) != seed_frame["hashes"].get(n_)]
            C["seeded_frame0_checks"] = len(names)
            if bad or int(f0["attrs"].get("step", -1)) != 0 or float(f0["attrs"].get("time", -1.0)) != 0.0:
                V.append({"kind": "frame0_of_seeded_run_ne_seed_state", "mechanism": "seeded_frame0_not_seed_state",
                          "detail": {"datasets": bad, "label": [int(f0["attrs"].get("step", -1)), float(f0["attrs"].get("time", -1.0))],
                                     "max_abs_diff": {n_: float(np.max(np.abs(f0["arrays"][n_] - seed_frame["arrays"][n_]))) for n_ in bad if n_ in f0["arrays"] and f0["arrays"][n_].shape == seed_frame["arrays"][n_].shape}}})
        for d_ in seed_dirs:
            shutil.rmtree(d_, ignore_errors=True)
    if refuser is not None:
        C["refusals_injected_in_later_screening_iterations"] = refuser.injected
    o = rr.options
    exc = rr.exception
    path = None
    for (op, tp) in tm.handler_paths:
        path = op
    mech_exc = None
    if exc is not None:
        s = repr(exc)
        if o.save_every == 1 and isinstance(exc, ValueError) and "zero-dimensional" in s:
            mech_exc = "save_every_1_unloadable"
        elif isinstance(exc, ValueError) and ("need at least one array" in s):
            mech_exc = "run_without_steps_unloadable"
        elif isinstance(exc, RuntimeError) and "failed to converge" in s:
            rr.cleanup()
            return {"violations": [], "counters": {"runs_ending_in_nonconvergence": 1}, "classes": ["nonconvergence"], "nontrivial": False,
                    "sample": {"exception": s[:160]}}
        else:
            mech_exc = "solve_raised"
        V.append({"kind": "solve_raised_on_normal_run", "mechanism": mech_exc, "detail": {"error": s[:300], "k": o.save_every, "N_target": spec["N_target"]}})
    # the temp-dir output is gone after solve() when output_file is None and solve raised; the
    # trace-level checks still apply. When solve returned, solution.path exists.
    sol = rr.solution
    if sol is not None:
        path = sol.path

    N_obs = None
    if (path is None or not os.path.exists(path)) and tm.snapshot is not None:
        path = tm.snapshot  # frames read from the still-open temp file just before the handler closed it
    if path is not None and (not isinstance(path, str) or os.path.exists(path)):
        init = None
        if not any(s["name"] == "Thermalizing" for s in tm.stages) and getattr(rr, "solver", None) is not None:
            sv = rr.solver
            ne = sv.num_edges
            init = {"psi": simmon.h(sv.psi_init), "mu": simmon.h(sv.mu_init), "supercurrent": simmon.h(np.zeros(ne)),
                    "normal_current": simmon.h(np.zeros(ne)), "induced_vector_potential": simmon.h(np.zeros((ne, 2)))}
        elif any(s["name"] == "Thermalizing" for s in tm.stages):
            th = [s for s in tm.stages if s["name"] == "Thermalizing"][0]
            ok = [u for u in th["updates"] if not u.get("failed")]
            if ok:
                init = ok[-1]["hashes"]
        v, c = runcheck.check(tm, o, path, solution=sol, complete=True, n_probes=spec["probes"], screening=spec["screening"], init_hashes=init)
        V += v
        C.update(c)
        # thermalisation: frame 0 is the post-thermalisation state
        if spec["therm"]:
            th = [s for s in tm.stages if s["name"] == "Thermalizing"]
            C["thermalisation_checks"] = 1
            if not th or not [u for u in th[0]["updates"] if not u.get("failed")]:
                V.append({"kind": "no_thermalisation_stage", "mechanism": "thermalisation_skipped", "detail": {}})
    else:
        C["output_missing"] = 1
    sims = [s for s in tm.stages if s["name"] == "Simulating"]
    ups = [u for u in sims[0]["updates"] if not u.get("failed")] if sims else []
    if sol is not None and exc is None and not sol.saved_on_disk:
        # a solution that only lives in memory (temp output), written out by the user and read back: the one frame it keeps
        # carries the final label, and ALL per-step records and frame times come back with it
        import shutil
        import tempfile

        import tdgl

        d_ = tempfile.mkdtemp(prefix="vt_c05m_")
        try:
            p_ = os.path.join(d_, "kept.h5")
            C["memory_only_reload_checks"] = 1
            try:
                sol.to_hdf5(p_)
                ld = tdgl.Solution.from_hdf5(p_)
                rec_dt = [float(x) for x in np.asarray(ld.dynamics.dt)] if ld.dynamics is not None else None
                used_dt = [float(u["dt"]) for u in ups]
                label = (int(ld.tdgl_data.state["step"]), float(ld.tdgl_data.state["time"]))
                want_label = (int(sol.tdgl_data.state["step"]), float(sol.tdgl_data.state["time"]))
                t_l, t_s = ld.times, sol.times
                if rec_dt != used_dt:
                    V.append({"kind": "per_step_records_lost_on_reload", "mechanism": "memory_only_solution_reload_loses_records",
                              "detail": {"recorded_steps_after_reload": None if rec_dt is None else len(rec_dt), "steps_run": len(used_dt)}})
                if label != want_label or label[0] != len(used_dt):
                    V.append({"kind": "frame_label_wrong_on_reload", "mechanism": "memory_only_solution_reload_label", "detail": {"label": label, "expected": want_label, "steps_run": len(used_dt)}})
                if (t_l is None) != (t_s is None) or (t_l is not None and not np.array_equal(np.asarray(t_l), np.asarray(t_s))):
                    V.append({"kind": "times_differ_on_reload", "mechanism": "memory_only_solution_reload_times",
                              "detail": {"times_after_reload": None if t_l is None else np.asarray(t_l).tolist()[:6], "times_before": None if t_s is None else np.asarray(t_s).tolist()[:6]}})
                for f_ in ("mu", "theta", "screening_iterations"):
                    x_, y_ = getattr(sol.dynamics, f_), getattr(ld.dynamics, f_)
                    if (x_ is None) != (y_ is None) or (x_ is not None and (np.asarray(x_).shape != np.asarray(y_).shape or not np.array_equal(x_, y_))):
                        V.append({"kind": "per_step_records_lost_on_reload", "mechanism": "memory_only_solution_reload_loses_records", "detail": {"column": f_}})
            except Exception as e_:  # noqa: BLE001
                V.append({"kind": "memory_only_solution_unreadable", "mechanism": "memory_only_solution_reload_raises", "detail": {"error": repr(e_)[:200]}})
        finally:
            shutil.rmtree(d_, ignore_errors=True)
    from ..ref import runspec

    N_obs = runspec.final_step([u["dt"] for u in ups], o.solve_time)
    refusals = sum(u["refusals"] for u in ups)
    C["refusals_seen"] = refusals
    k = int(o.save_every)
    cls = [f"mode={spec['mode']}", f"therm={spec['therm']}", f"probes={spec['probes']}", f"screening={spec['screening']}",
           "k=1" if k == 1 else "k>1",
           "N=0" if N_obs == 0 else ("N<k" if (N_obs or 0) < k else ("Nmodk=0" if (N_obs or 0) % k == 0 else "Nmodk!=0")),
           "retries" if refusals else "no_retries", "output=" + spec["options"]["output"]]
    rr.cleanup()
    return {"violations": V, "counters": C, "classes": cls,
            "nontrivial": bool(N_obs) and C.get("frame_content_checks", 0) > 0,
            "key": f"N={N_obs},k={k},{spec['mode']},{spec['therm']},{spec['probes']},{spec['screening']}",
            "sample": {"N": N_obs, "k": k, "mode": spec["mode"], "updates_run": len(ups), "refusals": refusals,
                       "frames": C.get("frame_label_checks", 0), "dt_first": ups[0]["dt"] if ups else None}}
