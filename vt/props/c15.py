"""C15 A stopped simulation leaves a clean, readable, truthful output.

Fault enumeration: for every step index of a bounded run and both stages, an exception
(RuntimeError) or a KeyboardInterrupt is injected at the entry/exit of the update, and
before / in the middle of (n-th dataset write) / after the frame writer; with an explicit
output path and without, with pre-existing files at the path, and with the interactive
pause answering no / yes. After each run the monitor audits, from outside: the files in
the output directory, that the output opens read-only AND read-write (closed, unlocked),
that its frames are exactly the completed saves (checked by the C05 run checker as a
prefix), that no *.tmp and no TemporaryDirectory survive, that pre-existing files are
byte-identical, and what solve() returned or raised.
Thorough adds line-level failpoints (sys.monitoring) on every statement of
Runner._run_stage, DataHandler.save_time_step and Runner.run."""
import builtins
import hashlib
import os
import shutil
import sys
import tempfile

import numpy as np

from .. import runcheck, sim, simmon, zoo
from ..recorder import Recorder
from . import _simcases as S

RULE = (
    "case = (save_every k, thermalisation on/off, output path explicit/None, set of pre-existing files, interrupt handling) on a "
    "~40-site device with N ~ 6 (quick) / 10 (thorough) steps; inside a case EVERY (stage, step 0..N, injection point in "
    "{update entry, update exit, save entry, save middle (each dataset), save exit}, {RuntimeError, KeyboardInterrupt}) is run "
    "and audited. non-trivial = a run in which the fault actually fired and the audit ran; distinct = distinct (case, stage, "
    "step, point, exception)"
)
REQUIRED_COUNTERS = ["faults_fired", "audits", "frame_prefix_checks", "reopen_checks", "cancel_returns_checked", "error_propagation_checked", "preexisting_checks"]
CASE_TIMEOUT = {"quick": 900, "thorough": 3000}
LEVEL = "fault_enumeration"
EXHAUSTIVE = {"quick": True, "thorough": True}
ASSUMPTIONS = ["faults are injected at the hook boundaries of the real functions (and, thorough, at every statement start via sys.monitoring); faults inside h5py's C code are not modelled",
               "exhaustive refers to the (step, point, exception) grid of each listed case"]


class Injected(RuntimeError):
    pass


class InjectedIO(OSError):
    """an I/O error, the most natural fault of a frame writer (disk full, file system gone)"""


class FailAt:
    def __init__(self, point, stage, step, exc_kind, nth=0):
        self.point, self.stage, self.step, self.exc_kind, self.nth = point, stage, step, exc_kind, nth
        self.fired = False
        self.seen = 0

    def maybe_fail(self, point, stage=None, step=None, **info):
        if self.fired or point != self.point or stage != self.stage or step != self.step:
            return
        if point in ("save_middle", "update_middle", "induced_exit"):
            if info.get("n") != self.nth:
                return
        self.fired = True
        if self.exc_kind == "kbd":
            raise KeyboardInterrupt()
        self.exc = (InjectedIO if self.exc_kind == "oserr" else Injected)(f"injected at {point} {stage} step {step}")
        raise self.exc

    def inside_spsq(self, stage=None, step=None, n=None):
        """Fault delivered INSIDE the arithmetic of solve_for_psi_squared (point 'spsq_inside'): returns the exception to raise."""
        if self.fired or self.point != "spsq_inside" or stage != self.stage or step != self.step or n != self.nth:
            return None
        self.fired = True
        if self.exc_kind == "kbd":
            return KeyboardInterrupt()
        self.exc = Injected(f"injected inside solve_for_psi_squared {stage} step {step}")
        return self.exc


class FailTwice:
    """A cancellation (KeyboardInterrupt) at `first`, and a second one at `second` - e.g. while the frame that records the
    cancelled state is being written. Looks like the first fault to the audit."""

    def __init__(self, first, second):
        self.first, self.second = first, second
        self.point, self.stage, self.step, self.exc_kind, self.nth = "twice:" + first.point + "+" + second.point, first.stage, first.step, "kbd", first.nth

    @property
    def fired(self):
        return self.first.fired

    @property
    def exc(self):
        return getattr(self.first, "exc", None)

    def maybe_fail(self, point, **info):
        if not self.first.fired:
            self.first.maybe_fail(point, **info)
        else:
            self.second.maybe_fail(point, **info)

    def inside_spsq(self, **info):
        return None


def S_BC2(dev):
    """Bc2 of the device spec in mT (field_units of these cases)."""
    from . import _simcases as S

    sc = S._scales(dev, {"field_units": "mT", "current_units": "uA"})
    return sc.Bc2 / sc.fu


def gen_cases(tier, seed):
    rng = np.random.default_rng(15_000 + seed)
    cases = []
    N = 6 if tier == "quick" else 10
    ks = [1, 2, 4] if tier == "quick" else [1, 2, 3, 4, 7, 11]
    combos = []
    for k in ks:
        combos.append(dict(k=k, therm=False, out="file", pre=[], pause="off"))
        combos.append(dict(k=k, therm=False, out="temp", pre=[], pause="off"))
    combos.append(dict(k=2, therm=True, out="file", pre=[], pause="off"))
    combos.append(dict(k=4, therm=True, out="temp", pre=[], pause="off"))
    combos.append(dict(k=2, therm=False, out="file", pre=["out.h5"], pause="off"))
    combos.append(dict(k=4, therm=False, out="file", pre=["out.h5", "out-1.h5"], pause="off"))
    combos.append(dict(k=2, therm=False, out="file", pre=["out.h5.tmp"], pause="off"))
    combos.append(dict(k=2, therm=False, out="file", pre=["out.h5", "out.h5.tmp", "out-1.h5.tmp"], pause="off"))
    combos.append(dict(k=2, therm=False, out="file", pre=["out.h5.tmp", "out-1.h5"], pause="off"))  # stale scratch of a vanished file + a later genuine result
    combos.append(dict(k=4, therm=False, out="file", pre=["out-1.h5", "out-2.h5.tmp"], pause="off"))
    combos.append(dict(k=2, therm=False, out="file", pre=["out.h5@open"], pause="off"))  # the earlier result is still open in this process
    combos.append(dict(k=2, therm=False, out="file", pre=[], pause="no"))
    combos.append(dict(k=2, therm=True, out="file", pre=[], pause="no"))
    combos.append(dict(k=2, therm=False, out="temp", pre=[], pause="enter"))
    combos.append(dict(k=4, therm=False, out="file", pre=[], pause=["No", "other"][seed % 2]))
    combos.append(dict(k=4, therm=False, out="file", pre=[], pause="yes"))
    combos.append(dict(k=1, therm=False, out="temp", pre=[], pause="yes"))
    # screening: update() iterates; faults can arrive between its iterations
    combos.append(dict(k=3, therm=False, out="file", pre=[], pause="off", scr=True))
    combos.append(dict(k=2, therm=True, out="temp", pre=[], pause="off", scr=True))
    if tier == "thorough":
        for k in (1, 3):
            for therm in (False, True):
                combos.append(dict(k=k, therm=therm, out="file", pre=["out.h5"], pause="no"))
                combos.append(dict(k=k, therm=therm, out="temp", pre=[], pause="yes"))
    for c in combos:
        probes = int(rng.choice([0, 2]))
        dev = zoo.gen_device(rng, n_terminals=2 if probes else 0, probes=probes, size="tiny", smooth=0, gamma=1.0)
        dt = 0.002
        o = dict(solve_time=N * dt - dt / 2, dt_init=dt, dt_max=0.1, adaptive=False, save_every=c["k"], field_units="mT", current_units="uA", output=c["out"],
                 auto_dt={"steps": N, "frac": 0.3, "exact": True, "therm_steps": 3 if c["therm"] else 0})
        drive = {"A": {"kind": "uniform", "B": 0.05}}
        if c.get("scr"):
            dev["layer"]["lam"], dev["layer"]["d"] = 2.0, 0.1
            o.update(include_screening=True, screening_tolerance=1e-3, max_iterations_per_step=2000)
            drive = {"A": {"kind": "uniform", "B": 0.3 * S_BC2(dev)}}
        cases.append({"mode": "hooks", "combo": c, "device": dev, "options": o, "drive": drive, "N": N, "seed": int(rng.integers(1 << 30)), "cost": 30})
    for c in (combos[:6] if tier == "thorough" else [combos[2], combos[1]]):
        if True:
            dev = zoo.gen_device(rng, n_terminals=0, probes=0, size="tiny", smooth=0, gamma=1.0)
            dt = 0.002
            o = dict(solve_time=4 * dt - dt / 2, dt_init=dt, dt_max=0.1, adaptive=False, save_every=c["k"], field_units="mT", current_units="uA", output=c["out"],
                     auto_dt={"steps": 4, "frac": 0.3, "exact": True})
            cases.append({"mode": "lines", "combo": c, "device": dev, "options": o, "drive": {"A": {"kind": "uniform", "B": 0.05}}, "N": 4, "seed": int(rng.integers(1 << 30)),
                          "max_line_faults": 400 if tier == "thorough" else 60, "cost": 200 if tier == "thorough" else 40})
    return cases


def _sha(path):
    with open(path, "rb") as f:
        return hashlib.sha256(f.read()).hexdigest()


def one_run(spec, device, fault, answer=None, line_fault=None):
    """Run once with one fault; returns the audit's violations and counters."""
    import h5py
    import tdgl
    import tdgl.solver.runner as R

    combo = spec["combo"]
    V, C = [], {}

    def viol(kind, mech, detail):
        d = {"fault": None if fault is None else [fault.point, fault.stage, fault.step, fault.exc_kind, fault.nth], "combo": combo, **detail}
        if line_fault is not None:
            d["line_fault"] = line_fault.describe()
        V.append({"kind": kind, "mechanism": mech, "detail": d})

    work = tempfile.mkdtemp(prefix="vt_c15_")
    outdir = os.path.join(work, "o")
    os.makedirs(outdir)
    pre = {}
    held_open = []
    for name in combo["pre"]:
        if name.endswith("@open"):
            # a genuine earlier result at the requested path that the caller still holds OPEN (h5py, read-only) during the run
            import h5py

            name = name[: -len("@open")]
            p = os.path.join(outdir, name)
            with h5py.File(p, "w") as f:
                f["earlier_result"] = np.arange(7.0)
            pre[name] = _sha(p)
            held_open.append(h5py.File(p, "r"))
            continue
        p = os.path.join(outdir, name)
        with open(p, "wb") as f:
            f.write(b"pre-existing " + name.encode() + os.urandom(16))
        pre[name] = _sha(p)
    path = os.path.join(outdir, "out.h5") if combo["out"] == "file" else None
    o = dict(spec["options"])
    opts = sim.build_options(o, output_file=path)
    opts.pause_on_interrupt = combo["pause"] != "off"
    tm = simmon.TraceMonitor()
    rec = Recorder([tm], failpoints=fault)
    # failpoint in the middle of the frame writer: runner._get is called once per dataset written
    orig_get = R._get
    state = {"n": 0}

    def get_with_failpoint(item):
        n = state["n"]
        state["n"] += 1
        st = rec.stage
        step = int(rec.runner.state["step"]) if getattr(rec, "runner", None) is not None else None
        if fault is not None and state.get("in_save"):
            fault.maybe_fail("save_middle", stage=st, step=step, n=n)
        return orig_get(item)

    class SaveScope:
        def on_save_begin(self, handler, st_, data, running):
            state["n"] = 0
            state["in_save"] = True

        def on_save_end(self, handler, exc):
            state["in_save"] = False

    rec.listeners.append(SaveScope())
    orig_input = builtins.input
    answers = []

    def fake_input(prompt=""):
        answers.append(prompt)
        # the prompt is "[yN]": anything that does not begin with y declines, the bare Enter key included
        return {"no": "n", "yes": "y", "enter": "", "No": "No", "other": "q"}.get(combo["pause"], "n")

    cwd = os.getcwd()
    os.chdir(outdir)
    result, raised = None, None
    tmp_before = set(os.listdir(tempfile.gettempdir()))
    try:
        R._get = get_with_failpoint
        builtins.input = fake_input
        with rec:
            if line_fault is not None:
                line_fault.arm()
            try:
                result = tdgl.solve(device, opts, applied_vector_potential=sim.build_drive(spec["drive"], device, opts)[0])
            except BaseException as exc:  # noqa: BLE001
                raised = exc
            finally:
                if line_fault is not None:
                    line_fault.disarm()
    finally:
        R._get = orig_get
        builtins.input = orig_input
        os.chdir(cwd)
        for h_ in held_open:
            try:
                h_.close()
            except Exception:  # noqa: BLE001
                pass
    fired = (fault is not None and fault.fired) or (line_fault is not None and line_fault.fired)
    C["runs"] = 1
    if not fired:
        C["fault_not_reached"] = 1
    else:
        C["faults_fired"] = 1
    C["audits"] = 1
    kbd = (fault is not None and fault.exc_kind == "kbd") or (line_fault is not None and line_fault.kind == "kbd")
    resumed = kbd and combo["pause"] == "yes"
    # ---------------- what solve() did
    if fired and not kbd:
        C["error_propagation_checked"] = 1
        want = fault.exc if fault is not None else line_fault.exc
        if raised is None:
            viol("injected_error_swallowed", "injected_error_swallowed", {"returned": type(result).__name__})
        elif raised is not want:
            viol("other_exception_propagated", "other_exception_propagated", {"raised": repr(raised)[:200]})
    elif fired and kbd and line_fault is not None and not line_fault.in_step_scope():
        # an interrupt outside the stepping loop / frame writer (stage set-up, progress bar, stage driver) is not
        # a stop "at a step": only the cleanliness audit below applies
        C["interrupts_outside_step_scope"] = 1
    elif fired and kbd:
        C["cancel_returns_checked"] = 1
        stage_of_fault = fault.stage if fault is not None else line_fault.stage_when_fired
        if isinstance(raised, KeyboardInterrupt):
            viol("cancellation_propagated_keyboardinterrupt", "cancellation_not_handled", {"where": stage_of_fault})
        elif raised is not None and resumed:
            # the user answered "continue": the run was not stopped by the interrupt. What a resumed
            # run must then do is outside C15 (see DESIGN 6b); a later crash is audited as an error stop.
            C["resumed_run_raised_later"] = 1
        elif raised is not None:
            # cancellation must return a usable partial solution (None only for thermalisation, or when no frame exists yet)
            saves_done = sum(1 for st in tm.stages for s in st["saves"] if s["completed"])
            mech = "cancel_raises_instead_of_returning"
            if saves_done == 0:
                mech = "cancel_before_first_frame_raises"
            viol("cancellation_raised", mech, {"raised": repr(raised)[:200], "completed_saves": saves_done, "stage": stage_of_fault})
        else:
            if stage_of_fault == "Thermalizing" and not resumed:
                # documented: cancelling during thermalisation ends the run (solve returns None); nothing may be simulated after it
                later = [st["name"] for st in tm.stages if st["name"] == "Simulating"]
                if result is not None or later:
                    viol("cancellation_in_thermalisation_ignored", "cancellation_ignored", {"returned": type(result).__name__, "stages_run": [st["name"] for st in tm.stages]})
            if result is None:
                saves_done = sum(1 for st in tm.stages for s in st["saves"] if s["completed"])
                if not resumed and stage_of_fault != "Thermalizing" and saves_done > 0:
                    viol("cancellation_returned_none", "cancel_returns_none_with_frames", {"completed_saves": saves_done})
            else:
                try:
                    _ = result.tdgl_data.psi
                    _ = result.dynamics.dt
                    if result.times is not None:
                        _ = len(result.times)
                        # as many frame times as frames, each the time stored with its frame (every one of them can be loaded)
                        import h5py as _h5

                        if not resumed and getattr(result, "path", None) and os.path.exists(result.path):  # (a resumed run is not a stopped run, see DESIGN 6b)
                            with _h5.File(result.path, "r") as f_:
                                ft_ = [float(f_["data"][k_].attrs["time"]) for k_ in sorted(f_["data"].keys(), key=int)]
                            C["partial_solution_times_checks"] = C.get("partial_solution_times_checks", 0) + 1
                            got_ = [float(x) for x in np.asarray(result.times)]
                            if len(got_) != len(ft_) or not np.allclose(got_, ft_, rtol=1e-12, atol=0):
                                viol("partial_solution_times_ne_frames", "partial_solution_times_ne_frames",
                                     {"times_reported": len(got_), "frames_in_file": len(ft_), "last_reported": got_[-2:], "last_in_file": ft_[-2:]})
                except Exception as exc:
                    viol("partial_solution_unusable", "partial_solution_unusable", {"error": repr(exc)[:200]})
    else:
        # fault never reached: an ordinary complete run
        if raised is not None:
            viol("fault_free_run_raised", "fault_free_run_raised", {"raised": repr(raised)[:200]})
    # ---------------- file system
    listing = sorted(os.listdir(outdir))
    for name, digest in pre.items():
        C["preexisting_checks"] = C.get("preexisting_checks", 0) + 1
        p = os.path.join(outdir, name)
        if not os.path.exists(p):
            viol("preexisting_file_removed", "preexisting_file_modified", {"file": name})
        elif _sha(p) != digest:
            viol("preexisting_file_modified", "preexisting_file_modified", {"file": name})
    new_files = [f for f in listing if f not in pre]
    out_paths = [op for (op, tp) in tm.handler_paths]
    tmp_paths = [tp for (op, tp) in tm.handler_paths]
    leftover_tmp = [f for f in new_files if f.endswith(".tmp")]
    if leftover_tmp:
        viol("tmp_file_left", "tmp_file_left", {"files": leftover_tmp})
    for tp in tmp_paths:
        if tp and os.path.exists(tp):
            if os.path.basename(tp) not in pre:
                viol("tmp_file_left", "tmp_file_left", {"files": [tp]})
    for td in tm.tempdirs:
        if os.path.exists(td):
            viol("tempdir_left", "tempdir_left", {"dir": td})
    if combo["out"] == "file":
        expect_new = [os.path.basename(p) for p in out_paths if p and os.path.dirname(p) == outdir]
        stray = [f for f in new_files if f not in expect_new]
        if stray:
            mech = "abandoned_empty_output_file" if all(os.path.getsize(os.path.join(outdir, f)) < 4096 for f in stray) and any(n.endswith(".tmp") for n in pre) else "stray_file_left"
            viol("stray_file_in_output_dir", mech, {"stray": stray, "output": expect_new, "preexisting": sorted(pre)})
        for p in out_paths:
            if p and os.path.basename(p) in pre:
                viol("existing_file_reused_as_output", "preexisting_file_modified", {"file": os.path.basename(p)})
    else:
        if new_files:
            viol("file_created_in_cwd_without_output_path", "stray_file_left", {"files": new_files})
    # ---------------- the output file itself
    final_out = out_paths[-1] if out_paths else None
    if combo["out"] == "file" and final_out is not None:
        C["reopen_checks"] = 1
        ok_open = True
        for mode in ("r", "r+"):
            try:
                with h5py.File(final_out, mode) as f:
                    _ = list(f.keys())
            except Exception as exc:
                ok_open = False
                viol("output_not_reopenable", "output_not_closed", {"mode": mode, "error": repr(exc)[:200]})
        if ok_open:
            completed = [s for st in tm.stages for s in st["saves"] if s["completed"]]
            frames, order = runcheck.read_frames(final_out)
            C["frame_prefix_checks"] = 1
            if fired and resumed:
                C["resumed_runs_audited_for_cleanliness_only"] = 1
            elif len(frames) != len(completed):
                incomplete = [fr["number"] for fr in frames if fr["number"] >= len(completed)]
                mech = "partial_frame_left" if len(frames) == len(completed) + 1 else "frame_count_wrong"
                viol("frames_ne_completed_saves", mech, {"frames_in_file": len(frames), "completed_saves": len(completed), "extra_frame_numbers": incomplete,
                                                            "datasets_in_last": sorted(frames[-1]["hashes"]) if frames else []})
            # each recorded frame complete: all datasets, attrs, running state
            for fr, sv in (zip(frames, completed) if not (fired and resumed) else []):
                miss = [k for k in sv["hashes"] if k not in fr["hashes"]]
                bad = [k for k in sv["hashes"] if k in fr["hashes"] and fr["hashes"][k] != sv["hashes"][k]]
                if miss or bad:
                    viol("frame_incomplete_or_wrong", "frame_incomplete_or_wrong", {"frame": fr["number"], "missing": miss, "wrong": bad})
                for a in ("step", "time", "dt"):
                    if a not in fr["attrs"]:
                        viol("frame_attr_missing", "frame_incomplete_or_wrong", {"frame": fr["number"], "attr": a})
                if sv["running"] is not None and fr["running"] is None:
                    viol("frame_running_state_missing", "frame_incomplete_or_wrong", {"frame": fr["number"]})
            # C05 checker as a prefix (complete when the run was resumed or the fault never fired)
            if len(frames) == len(completed) and not (fired and resumed):
                # (a run resumed after a pause is not a stopped run: what its frames must then
                # contain is outside C15 and C05; it is audited for cleanliness only)
                complete = not fired
                sol_obj = result if (complete and result is not None) else None
                v, c = runcheck.check(tm, opts, final_out, solution=sol_obj, complete=complete,
                                      n_probes=0 if device.probe_points is None else len(device.probe_points))
                for x in v:
                    x["detail"] = {"fault": None if fault is None else [fault.point, fault.stage, fault.step, fault.exc_kind], "combo": combo,
                                   "line_fault": None if line_fault is None else line_fault.describe(), **x["detail"]}
                V.extend(v)
    shutil.rmtree(work, ignore_errors=True)
    return V, C


class LineFault:
    """sys.monitoring failpoint: raises at the k-th statement start inside the target code objects."""

    TOOL = 3
    loop_headers = set()

    def __init__(self, codes, k, kind):
        self.codes, self.k, self.kind = codes, k, kind
        self.count = 0
        self.prev = None
        self.skipped_not_interruptible = 0
        self.call_lines = self._call_lines(codes)
        self.fired = False
        self.where = None
        self.stage_when_fired = None
        self.exc = None

    @staticmethod
    def _call_lines(codes):
        """Lines (per file) of statements after which CPython can deliver an asynchronous exception: the
        interpreter polls for pending signals after calls and on loop back-edges, not between plain
        assignments. A failpoint at the start of statement L models an interrupt delivered at the end of the
        previously executed statement, so it is armed only when that statement contains a call / loop / with."""
        import ast
        import inspect

        out = set()
        self_headers = LineFault.loop_headers
        for c in codes:
            try:
                src, first = inspect.getsourcelines(c)
            except OSError:
                continue
            import textwrap

            tree = ast.parse(textwrap.dedent("".join(src)))
            compound = (ast.For, ast.While, ast.With, ast.Try, ast.If, ast.FunctionDef, ast.AsyncFor, ast.AsyncWith)

            def has_call(n):
                return any(isinstance(x, (ast.Call, ast.Await)) for x in ast.walk(n))

            for node in ast.walk(tree):
                if not isinstance(node, ast.stmt):
                    continue
                if isinstance(node, (ast.For, ast.AsyncFor, ast.While)):
                    # the loop header itself is a delivery point (back-edge poll): recorded separately
                    self_headers.add((c.co_filename, first + node.lineno - 1))
                    continue
                if isinstance(node, compound):
                    hdr = []
                    if isinstance(node, ast.If):
                        hdr = [node.test]
                    elif isinstance(node, (ast.With, ast.AsyncWith)):
                        hdr = [i.context_expr for i in node.items]
                    if any(has_call(h) for h in hdr):
                        out.add((c.co_filename, first + node.lineno - 1))
                    continue
                if has_call(node):
                    for ln in range(node.lineno, (node.end_lineno or node.lineno) + 1):
                        out.add((c.co_filename, first + ln - 1))
        return out

    def describe(self):
        return {"k": self.k, "kind": self.kind, "where": self.where}

    def in_step_scope(self):
        """Did the fault hit a statement of the frame writer, or of the stepping loop's try block / the guarded
        final save of Runner._run_stage?"""
        import inspect

        import tdgl.solver.runner as R

        if self.where is None:
            return False
        fn, line = self.where.split(":")
        line = int(line)
        if fn == "save_time_step":
            return True
        if fn != "_run_stage":
            return False
        src, first = inspect.getsourcelines(R.Runner._run_stage)
        spans, start = [], None
        for i, text in enumerate(src):
            t = text.strip()
            if t == "try:":
                start = first + i + 1
            elif t.startswith("except KeyboardInterrupt") and start is not None:
                spans.append((start, first + i - 1))
                start = None
        if src[line - first].strip() == "break":
            # the jump of a `break` is compiled outside the protected range of the enclosing try: an interrupt
            # landing on that single instruction leaves the loop unguarded by construction of the language
            return False
        return any(a <= line <= b for a, b in spans)

    def arm(self):
        mon = sys.monitoring
        mon.use_tool_id(self.TOOL, "vt_c15")
        mon.register_callback(self.TOOL, mon.events.LINE, self._cb)
        for c in self.codes:
            mon.set_local_events(self.TOOL, c, mon.events.LINE)

    def disarm(self):
        mon = sys.monitoring
        for c in self.codes:
            mon.set_local_events(self.TOOL, c, 0)
        mon.register_callback(self.TOOL, mon.events.LINE, None)
        mon.free_tool_id(self.TOOL)

    def _cb(self, code, line):
        if self.fired:
            return
        self.count += 1
        prev, self.prev = self.prev, (code.co_filename, line)
        if self.k is not None and self.count == self.k:
            here = (code.co_filename, line)
            if here not in self.loop_headers and prev is not None and prev not in self.call_lines:
                # the previously executed statement cannot deliver an asynchronous exception at its end
                self.skipped_not_interruptible = 1
                self.k = None
                return
            self.fired = True
            self.where = f"{code.co_name}:{line}"
            if self.kind == "kbd":
                raise KeyboardInterrupt()
            self.exc = Injected(f"injected at line {self.where}")
            raise self.exc


def run_case(spec):
    import tdgl.solver.runner as R

    spec0 = spec
    dev, why = zoo.try_build_device(spec["device"])
    tries = 0
    while dev is None and tries < 4:
        # every combination of this enumeration matters: a geometry the mesher refuses is replaced by another draw of the same kind
        tries += 1
        old = spec["device"]
        new = zoo.gen_device(np.random.default_rng(spec["seed"] + tries), n_terminals=len(old["terminals"]), probes=len(old["probes"] or []), size="tiny", smooth=0, gamma=1.0)
        new["layer"]["lam"], new["layer"]["d"] = old["layer"]["lam"], old["layer"]["d"]
        spec = dict(spec, device=new)
        dev, why = zoo.try_build_device(new)
    if dev is None:
        return {"violations": [], "counters": {"refused_mesh": 1}, "classes": ["refused"], "nontrivial": False}
    spec = sim.resolve_auto_dt(spec, dev)
    combo = spec["combo"]
    N = spec["N"]
    V, C = [], {}

    def merge(v, c):
        for x in v:
            if len(V) < 40:
                V.append(x)
        for k, n in c.items():
            C[k] = C.get(k, 0) + n

    classes = set()
    if spec["mode"] == "hooks":
        # baseline run without fault
        v0, c0 = one_run(spec, dev, None)
        while any("exactly singular" in str(x["detail"].get("raised", "")) for x in v0) and tries < 6:
            # SuperLU refuses this mesh's Poisson matrix: another draw of the same kind of device
            tries += 1
            old = spec["device"]
            new = zoo.gen_device(np.random.default_rng(spec["seed"] + 100 + tries), n_terminals=len(old["terminals"]), probes=len(old["probes"] or []), size="tiny", smooth=0, gamma=1.0)
            new["layer"]["lam"], new["layer"]["d"] = old["layer"]["lam"], old["layer"]["d"]
            d2, _ = zoo.try_build_device(new)
            if d2 is None:
                continue
            dev = d2
            spec = sim.resolve_auto_dt(dict(spec0, device=new), dev)
            v0, c0 = one_run(spec, dev, None)
        if any("exactly singular" in str(x["detail"].get("raised", "")) for x in v0):
            return {"violations": [], "counters": {"refused_mesh": 1}, "classes": ["refused"], "nontrivial": False}
        merge(v0, c0)
        stages = (["Thermalizing"] if combo["therm"] else []) + ["Simulating"]
        nfields = 5  # psi, mu, supercurrent, normal_current, induced_vector_potential
        for stage in stages:
            nsteps = N if stage == "Simulating" else 3
            for step in range(0, nsteps + 1):
                for exc_kind in ("err", "kbd"):
                    if combo["pause"] != "off" and exc_kind == "err":
                        continue
                    points = [("update_entry", 0), ("update_exit", 0), ("update_middle", 0)]
                    if exc_kind == "kbd":
                        points.append(("spsq_inside", 0))  # a cancellation that arrives in the middle of the psi update's arithmetic
                    if combo.get("scr"):
                        points += [("update_middle", 1), ("induced_exit", 0), ("induced_exit", 1)]
                    if stage == "Simulating":
                        points += [("save_entry", 0), ("save_exit", 0)] + [("save_middle", n) for n in (0, 2, 4, 5, 6)]
                    if exc_kind == "err" and stage == "Simulating":
                        # the frame writer failing with an I/O error: an error like any other (the run stops, the error reaches the caller)
                        for point, nth in (("save_entry", 0), ("save_middle", 2), ("save_exit", 0)):
                            f = FailAt(point, stage, step, "oserr", nth)
                            merge(*one_run(spec, dev, f))
                            if f.fired:
                                classes.add(f"{point}/oserr")
                    for point, nth in points:
                        f = FailAt(point, stage, step, exc_kind, nth)
                        merge(*one_run(spec, dev, f))
                        if f.fired:
                            classes.add(f"{point}/{exc_kind}")
                    if exc_kind == "kbd" and stage == "Simulating" and combo["pause"] == "off" and step % combo["k"] != 0:
                        # Ctrl-C twice: the second one arrives while the frame that records the cancelled state is written
                        for p2, n2 in (("save_entry", 0), ("save_middle", 2), ("save_exit", 0)):
                            f2 = FailTwice(FailAt("update_entry", stage, step, "kbd", 0), FailAt(p2, stage, step, "kbd", n2))
                            merge(*one_run(spec, dev, f2))
                            if f2.second.fired:
                                classes.add("double_interrupt/" + p2)
    else:
        # statements of the simulation loop, the frame writer and the stage driver (the property speaks of
        # stops "at any step": faults while the handler itself is being set up or torn down are out of scope)
        codes = [R.Runner._run_stage.__code__, R.DataHandler.save_time_step.__code__, R.Runner.run.__code__]
        # the recorder wraps these functions; their original code objects are what runs inside
        probe = LineFault(codes, None, "err")
        # count line events in a fault-free run
        v, c = one_run(spec, dev, None, line_fault=probe)
        total = probe.count
        C["line_events_in_clean_run"] = total
        ks = list(range(1, total + 1))
        cap = int(spec.get("max_line_faults", 400))
        if total > cap:
            rng = np.random.default_rng(spec["seed"])
            ks = sorted(set(rng.choice(ks, cap, replace=False).tolist()))
        for k in ks:
            for kind in ("err", "kbd"):
                lf = LineFault(codes, k, kind)
                merge(*one_run(spec, dev, None, line_fault=lf))
                if lf.fired:
                    classes.add("line/" + kind)
    # keep distinct mechanisms, first witnesses
    seen, VV = {}, []
    for x in V:
        seen[x["mechanism"]] = seen.get(x["mechanism"], 0) + 1
        if seen[x["mechanism"]] <= 3:
            VV.append(x)
    return {"violations": VV, "counters": C, "classes": sorted(classes) + [f"k={combo['k']}", f"therm={combo['therm']}", "out=" + combo["out"], "pause=" + combo["pause"], "pre=" + ",".join(combo["pre"]), "screening=" + str(bool(combo.get("scr")))],
            "nontrivial": C.get("faults_fired", 0) > 0, "nontrivial_n": C.get("faults_fired", 0), "key": f"{spec['mode']}|{combo}|{spec['seed']}",
            "observations": {"violating_runs_" + m: n for m, n in seen.items()},
            "sample": {"combo": combo, "runs": C.get("runs", 0), "faults_fired": C.get("faults_fired", 0), "not_reached": C.get("fault_not_reached", 0)}}
