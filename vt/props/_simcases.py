"""Shared simulation workloads for the solver properties (C01, C02, C06, C10, C12,
C13, C17): seeded generators of self-contained simulation specs and the runner
that wires the per-property monitors into the flight recorder."""
import math

import numpy as np

from .. import sim, simmon, zoo
from ..ref import units


def _scales(dev, o):
    L = dev["layer"]
    return units.Scales(L["xi"], L["lam"], L["d"], dev.get("length_units", "um"), o.get("field_units", "mT"), o.get("current_units", "uA"))


def base_options(rng, adaptive=True, steps=120, screening=False, save_every=None):
    if adaptive:
        dt_init = float(rng.choice([1e-3, 5e-3, 1e-2]))
        dt_max = float(rng.choice([0.05, 0.1]))
        solve_time = steps * dt_max * 0.6
    else:
        # resolved at run time from the mesh's explicit stability bound (sim.resolve_auto_dt)
        dt_init = 1e-3
        dt_max = 0.1
        solve_time = steps * dt_init
    o = dict(solve_time=float(solve_time), dt_init=dt_init, dt_max=dt_max, adaptive=bool(adaptive),
             save_every=int(save_every or rng.choice([7, 10, 25])), field_units="mT", current_units="uA", output="file")
    if not adaptive:
        o["auto_dt"] = {"steps": int(steps), "frac": float(rng.choice([0.15, 0.3, 0.45]))}
    if screening:
        o.update(include_screening=True, screening_tolerance=float(rng.choice([1e-2, 1e-3])), max_iterations_per_step=400)
    return o


def field_spec(rng, dev, o, kind, b=None, T=None):
    sc = _scales(dev, o)
    b = b if b is not None else float(rng.choice([0.05, 0.2, 0.45]))
    B = b * sc.Bc2 / sc.fu
    T = T or o["solve_time"]
    if kind == "zero":
        return {"kind": "zero"}
    if kind == "uniform":
        return {"kind": "uniform", "B": B}
    if kind == "uniform_float":
        return {"kind": "uniform_float", "B": B}
    if kind == "ramp":
        return {"kind": str(rng.choice(["ramp", "ramp_left"])), "B": B, "tmin": 0.1 * T, "tmax": 0.8 * T}
    if kind == "osc":
        return {"kind": "osc", "B": B, "w": 2 * math.pi / (0.5 * T)}
    if kind == "piecewise":
        return {"kind": "piecewise", "B": B, "times": [0.3 * T, 0.6 * T], "values": [0.0, 1.0, 0.4]}
    if kind == "loop":
        xi = dev["layer"]["xi"]
        # current chosen so that the flux scale is comparable with b*Bc2
        Iloop = b * sc.Bc2 * (2 * 3 * xi * sc.lu) / units.MU0 / sc.cu
        return {"kind": "loop", "current": Iloop, "radius": 3 * xi, "center": [0.3 * xi, -0.2 * xi, 2.0 * xi]}
    raise ValueError(kind)


def current_spec(rng, dev, o, kind, strength=None):
    names = [t["name"] for t in dev.get("terminals", [])]
    if kind == "none" or not names:
        return {"kind": "none"}
    sc = _scales(dev, o)
    # natural unit: (K0/4) * terminal length
    Lmin = min(max(t.get("h", 0), t.get("w", 0)) for t in dev["terminals"])
    Iunit = (sc.K0 / 4) * (Lmin * sc.lu) / sc.cu
    strength = strength if strength is not None else float(rng.choice([0.05, 0.15, 0.35]))
    I = strength * Iunit
    n = len(names)
    if kind == "const":
        # small integers scaled through the choice of pattern
        pats = {2: [1, -1], 3: [3, -1, -2], 4: [2, 1, -4, 1]}[n]
        vals = {nm: float(round(I, 3) * p) for nm, p in zip(names, pats)} if I >= 1 else {nm: I * p for nm, p in zip(names, pats)}
        return {"kind": "const", "values": vals}
    if kind == "integers":
        pats = {2: [1, -1], 3: [3, -1, -2], 4: [2, 1, -4, 1]}[n]
        k = max(1, int(round(I)))
        return {"kind": "const", "values": {nm: float(k * p) for nm, p in zip(names, pats)}}
    if kind == "decimal":
        pats = {2: [0.1, -0.1], 3: [0.1, 0.2, -0.3], 4: [0.1, 0.2, 0.3, -0.6]}[n]
        return {"kind": "decimal", "values": {nm: p for nm, p in zip(names, pats)}, "decimal_exact": True}
    if kind == "pulse":
        pats = {2: [1, -1], 3: [3, -1, -2], 4: [2, 1, -4, 1]}[n]
        return {"kind": "pulse", "values": {nm: I * p for nm, p in zip(names, pats)}, "t_off": 0.45 * o["solve_time"]}
    if kind == "switch":
        # the input moves from one terminal to the next while the others keep their current: every terminal in turn is
        # the one whose current does NOT change at a switch
        T = o["solve_time"]
        phases = []
        for q in names:  # common drain q; the input moves over the other terminals while q keeps -I
            for p_ in names:
                if p_ != q:
                    phases.append({nm: (I if nm == p_ else (-I if nm == q else 0.0)) for nm in names})
        m = len(phases) - 1
        return {"kind": "switch", "phases": phases, "times": [T * (j + 1) / (m + 1) for j in range(m)]}
    if kind == "blip":
        # constant except for a short pulse (three times the current) that covers two steps of a 300-step run
        T = o["solve_time"]
        pats = {2: [1, -1], 3: [3, -1, -2], 4: [2, 1, -4, 1]}[n]
        base = {nm: I * p for nm, p in zip(names, pats)}
        return {"kind": "switch", "phases": [base, {k_: 3.0 * v_ for k_, v_ in base.items()}, base], "times": [0.4 * T, 0.4 * T + T / 150.0]}
    if kind == "stair":
        # a slow staircase: 0.1 % steps
        T = o["solve_time"]
        pats = {2: [1, -1], 3: [3, -1, -2], 4: [2, 1, -4, 1]}[n]
        m = 12
        return {"kind": "switch", "phases": [{nm: I * p * (1 + 1e-3 * j) for nm, p in zip(names, pats)} for j in range(m + 1)], "times": [T * (j + 1) / (m + 1) for j in range(m)]}
    if kind == "callable":
        pats = {2: [1, -1], 3: [3, -1, -2], 4: [2, 1, -4, 1]}[n]
        return {"kind": "callable", "values": {nm: I * p for nm, p in zip(names, pats)}, "amp": 0.5, "w": 2 * math.pi / (0.4 * o["solve_time"])}
    raise ValueError(kind)


MONITORS = {
    "sanitizer": lambda spec: simmon.Sanitizer(),
    "charge": lambda spec: simmon.ChargeMonitor(spec.get("drive", {})),
    "step": lambda spec: simmon.StepOracle(every=spec.get("step_every", 1)),
    "pin": lambda spec: simmon.PinMonitor(),
    "fresh": lambda spec: simmon.OperatorFreshness(),
    "adaptive": lambda spec: simmon.AdaptiveMonitor(),
    "screening": lambda spec: simmon.ScreeningMonitor(),
}


def run_sim_case(spec, prop, extra_listeners=(), post=None, **run_kwargs):
    """Runs one simulation spec with the monitors it names. Returns a result dict."""
    if run_kwargs.get("device") is None:
        device, why = zoo.try_build_device(spec["device"])
        if device is None:
            return {"violations": [], "counters": {"refused_mesh": 1}, "classes": ["refused"], "nontrivial": False}
        run_kwargs["device"] = device
    # fixed-step workloads get their dt from the mesh at run time; monitors must see the resolved drive
    spec = sim.resolve_auto_dt(spec, run_kwargs["device"])
    if spec.get("history"):
        refused = apply_history(spec, run_kwargs["device"])
        if refused:
            return {"violations": [], "counters": {"refused_mesh": 1}, "classes": ["refused"], "nontrivial": False, "refused_reason": refused}
    mons = {name: MONITORS[name](spec) for name in ["sanitizer"] + list(spec.get("monitors", []))}
    listeners = list(mons.values()) + list(extra_listeners)
    rr = sim.run_sim(spec, listeners, **run_kwargs)
    if rr.refused and spec.get("history") in ("used_moved", "used_shifted") and "covers no boundary edge" in str(rr.refused):
        # the very same Device was accepted (and solved) before it was moved rigidly: a rigid move loses no terminal
        return {"violations": [{"kind": "device_refused_after_rigid_move", "mechanism": "device_refused_after_rigid_move",
                                "detail": {"history": spec["history"], "shift_frac": spec.get("shift_frac"), "reason": str(rr.refused)}}],
                "counters": {"refused_after_move": 1}, "classes": ["refused_after_move"], "nontrivial": True}
    if rr.refused:
        return {"violations": [], "counters": {"refused_mesh": 1}, "classes": ["refused"], "nontrivial": False, "refused_reason": str(rr.refused)}
    V, C, W = [], {}, {}
    for name, m in mons.items():
        for v in m.V:
            V.append(v)
        for k, v in m.C.items():
            C[k] = C.get(k, 0) + v
        for k, v in m.W.items():
            W[k] = max(W.get(k, 0.0), v)
    C["input_immutability_checks"] = 1
    for m_ in getattr(rr, "mutated", []):
        V.append({"kind": "solve_changes_callers_inputs", "mechanism": "solve_changes_callers_inputs", "detail": m_})
    C["update_calls"] = rr.recorder.counts.get("on_update_end", 0)
    C["spsq_calls"] = rr.recorder.counts.get("on_spsq", 0)
    exc = rr.exception
    info = {"sites": int(len(rr.device.mesh.sites)), "updates": C["update_calls"],
            "exception": None if exc is None else f"{type(exc).__name__}: {str(exc)[:160]}",
            "worst_over_gate": {k: round(v, 6) for k, v in W.items()}}
    out = {"violations": V, "counters": C, "worst": W, "sample": info, "rr": rr, "mons": mons}
    if post is not None:
        post(out)
    out.pop("rr")
    out.pop("mons")
    try:
        rr.cleanup()
    except Exception:
        pass
    return out


class _DepthProbe:
    """deepest run of consecutive refusals within one update, and the dt sequence of the run"""

    def __init__(self):
        self.depth = 0
        self.dts = []

    def on_update_end(self, ctx, res, exc):
        self.depth = max(self.depth, int(ctx["refusals"]))
        if res is not None:
            self.dts.append(float(res.dt))


def probe_retry_depth(spec, device):
    """Runs the case once, unmonitored, with a generous retry budget; returns (R, dts): the largest number of consecutive
    refusals any step needed and the time steps used. A budget of R - 1 retries... see DESIGN 8e (exact retry budget)."""
    import copy

    pre = copy.deepcopy(spec)
    pre["options"]["max_solve_retries"] = 60
    pre["options"]["output"] = "temp"
    pre.pop("history", None)
    pr = _DepthProbe()
    r0 = sim.run_sim(pre, [pr], device=device)
    if r0.refused or r0.exception is not None:
        return None, None
    try:
        r0.cleanup()
    except Exception:
        pass
    return pr.depth, pr.dts


def apply_history(spec, device):
    """Things that happened to the Device object BEFORE the monitored run (the monitors only watch the run that follows):
    'used' = solved once with other options (terminal pinning toggled, zero field, screening toggled off);
    'used_moved' = the same, then moved in place and back (coordinates differ from the originals by rounding only);
    'used_shifted' = the same, then moved in place and left there;
    'layer_edited' = the earlier run was made with other layer values (london_lambda, thickness, gamma), edited in place."""
    import copy

    pre = copy.deepcopy(spec)
    pre.pop("history", None)
    pre.pop("solve_twice", None)
    o = pre["options"]
    o["terminal_psi"] = "none" if o.get("terminal_psi", 0.0) != "none" else 0.0
    o["include_screening"] = False
    o["solve_time"] = 0.3 * o.get("solve_time", 1.0)
    if "auto_dt" in o:
        o["auto_dt"] = dict(o["auto_dt"], steps=max(5, o["auto_dt"]["steps"] // 3))
    o["skip_time"] = 0.0
    o["output"] = "temp"
    pre["drive"] = {"A": {"kind": "zero"}}
    if spec["drive"].get("currents", {}).get("kind") == "const":
        pre["drive"]["currents"] = spec["drive"]["currents"]
    if spec["history"] == "layer_edited_screening":
        # the earlier run of the material sweep was a SCREENING run too (same field, weaker screening material)
        o["include_screening"] = True
        pre["drive"]["A"] = spec["drive"].get("A", {"kind": "zero"})
    if spec["history"] in ("layer_edited", "layer_edited_screening"):
        # a sweep over material parameters on ONE Device object: the earlier run saw another penetration depth / thickness /
        # coherence-independent layer values; they are set back to this case's values before the monitored run
        L = device.layer
        keep = (L.london_lambda, L.thickness, L.gamma)
        L.london_lambda, L.thickness, L.gamma = 2.0 * keep[0], 0.5 * keep[1], 3.0
    r0 = sim.run_sim(pre, [], device=device)
    if spec["history"] in ("layer_edited", "layer_edited_screening"):
        L.london_lambda, L.thickness, L.gamma = keep
    if r0.refused:
        return str(r0.refused)
    try:
        r0.cleanup()
    except Exception:
        pass
    if spec["history"] == "used_moved":
        size = float(np.ptp(np.asarray(device.film.points), axis=0).max())
        device.translate(0.31 * size, -0.17 * size, inplace=True)
        device.translate(-0.31 * size, 0.17 * size, inplace=True)
    if spec["history"] == "used_shifted":
        # ... and moved in place for good (by an amount comparable with the width of a contact): the monitored run is made at
        # the new place - mesh, outlines and terminals have all moved together
        size = float(np.ptp(np.asarray(device.film.points), axis=0).max())
        fr = float(spec.get("shift_frac", 0.23))
        device.translate(fr * size, 0.8 * fr * size, inplace=True)
    return None


def classes_of(spec):
    d = spec.get("drive", {})
    o = spec["options"]
    dev = spec["device"]
    return [
        f"terminals={len(dev.get('terminals', []))}",
        f"holes={len(dev.get('holes', []))}",
        "A=" + d.get("A", {}).get("kind", "zero"),
        "I=" + d.get("currents", {}).get("kind", "none"),
        "eps=" + d.get("epsilon", {}).get("kind", "one"),
        "screening=" + str(bool(o.get("include_screening"))),
        "adaptive=" + str(bool(o.get("adaptive", True))),
        "units=" + dev.get("length_units", "um") + "/" + o.get("field_units", "mT") + "/" + o.get("current_units", "uA"),
        "terminal_psi=" + str(o.get("terminal_psi", 0.0)),
        "gamma=" + str(dev["layer"].get("gamma")),
    ] + (["history=" + spec["history"]] if spec.get("history") else [])


# ----------------------------------------------------------------------------
# per-property case lists
# ----------------------------------------------------------------------------
def c10_insitu_cases(tier, rng):
    cases = []
    n = 8 if tier == "quick" else 48
    kinds = ["ramp", "slow_ramp", "piecewise", "osc", "screening", "screening_ramp", "pulse_back_to_start", "therm_ramp"]
    for k in range(n):
        kind = kinds[k % len(kinds)]
        nt = int(rng.choice([0, 2]))
        dev = zoo.gen_device(rng, n_terminals=nt, n_holes=int(rng.choice([0, 1])) if nt == 0 else 0, probes=0,
                             size="tiny" if "screening" in kind else "small", smooth=0)
        scr = "screening" in kind
        if scr:
            dev["layer"]["lam"], dev["layer"]["d"] = 2.0, 0.1  # moderate screening: Polyak's iteration converges
        if kind == "slow_ramp":
            dev["layer"]["gamma"], dev["layer"]["u"] = 1.0, 5.79  # dt = 1e-3 well inside the stability bound
        o = base_options(rng, adaptive=bool(rng.choice([True, False])) and kind != "slow_ramp", steps=40 if scr else 150, screening=scr)
        if scr:
            o["max_iterations_per_step"] = 3000
        if nt:
            o["terminal_psi"] = [0.0, "none"][int(rng.integers(2))]
        if kind == "slow_ramp":
            # very slow ramp with small fixed dt: per-step change of A is below the solver's
            # allclose threshold, total change over the run is not
            o.update(adaptive=False, dt_init=1e-3, solve_time=0.4)
            o.pop("auto_dt", None)
            sc = _scales(dev, o)
            # relative change per step 1e-3/150 < 1e-5 (below allclose), 0.27 % over the run
            A = {"kind": "ramp", "B": 0.4 * sc.Bc2 / sc.fu, "tmin": 0.0, "tmax": 150.0, "initial": 1.0, "final": 2.0}
        elif kind == "pulse_back_to_start":
            sc = _scales(dev, o)
            T = o["solve_time"]
            A = {"kind": "piecewise", "B": 0.3 * sc.Bc2 / sc.fu, "times": [0.2 * T, 0.5 * T], "values": [0.0, 1.0, 0.0]}
        elif kind == "therm_ramp":
            # thermalisation with a time-dependent field: the clock restarts at t = 0 for the recorded stage
            o["skip_time"] = 0.4 * o["solve_time"]
            A = field_spec(rng, dev, o, "ramp", b=0.3)
        elif kind == "screening":
            A = field_spec(rng, dev, o, "uniform", b=0.2)
        elif kind == "screening_ramp":
            A = field_spec(rng, dev, o, "ramp", b=0.2)
        else:
            A = field_spec(rng, dev, o, kind)
        drive = {"A": A, "currents": current_spec(rng, dev, o, "const" if nt and rng.random() < 0.5 else "none")}
        cases.append({"layer": "L2", "device": dev, "options": o, "drive": drive, "monitors": ["fresh"], "kind": kind,
                      "cost": 30 if scr else 8})
        if len(cases) % 3 == 0:
            cases[-1]["history"] = ["used", "used_moved"][(len(cases) // 3) % 2]  # Device object solved before with other options
        if kind in ("screening", "ramp", "pulse_back_to_start") and (k // len(kinds)) % 2 == 0:
            cases[-1]["solve_twice"] = True  # one TDGLSolver object: the second run starts with the operators the first one left
    for k in range(2 if tier == "quick" else 8):
        # two solver objects on one Device alive at the same time: A is constructed, then B (another field, another pinning) is
        # constructed on the same device, then A is run: A's operators carry A's link variables (static field: never refreshed)
        nt = int([2, 0][k % 2])
        dev = zoo.gen_device(rng, n_terminals=nt, n_holes=0, probes=0, size="small", smooth=0)
        o = base_options(rng, adaptive=bool(k % 2), steps=60)
        if nt:
            o["terminal_psi"] = [0.0, "none"][(k // 2) % 2]
        drive = {"A": field_spec(rng, dev, o, ["uniform", "ramp"][(k // 2) % 2], b=0.3), "currents": current_spec(rng, dev, o, "const" if nt else "none")}
        cases.append({"layer": "L2", "device": dev, "options": o, "drive": drive, "monitors": ["fresh"], "kind": "rival_solver", "rival_solver": ["same_pinning", "toggle_pinning"][(k // 2) % 2], "cost": 8})
    for k in range(2 if tier == "quick" else 6):
        # a run WITHOUT screening started from the final state of a run WITH screening (static / ramped field): the induced
        # potential is not part of this run's model, the operators in use carry the applied potential alone from the first step on
        nt = int([0, 2][k % 2])
        dev = zoo.gen_device(rng, n_terminals=nt, n_holes=0, probes=0, size="tiny", smooth=0)
        dev["layer"]["lam"], dev["layer"]["d"] = 1.0, 0.2  # strong screening: the seed's induced potential is not small
        o = base_options(rng, adaptive=bool(k % 2), steps=40)
        drive = {"A": field_spec(rng, dev, o, ["uniform", "ramp"][(k // 2) % 2], b=0.3), "currents": current_spec(rng, dev, o, "const" if nt else "none")}
        cases.append({"layer": "L2", "device": dev, "options": o, "drive": drive, "monitors": ["fresh"], "kind": "seed_screening_to_plain", "seed_from_screening": True, "cost": 30})
    return cases
