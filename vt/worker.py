"""Worker process: `python -m vt.worker <PROP>`; reads one JSON case spec per line
on stdin, writes one JSON result per line on the protocol fd (the original stdout;
fd 1 is redirected to stderr so that library prints cannot corrupt the protocol)."""
import importlib
import json
import os
import sys
import time
import traceback


def main():
    prop = sys.argv[1]
    try:
        # a runaway allocation inside a native library (the Triangle mesher has done that on degenerate outlines) ends THIS worker
        # ("worker died" -> the case is retried alone / counted inconclusive) instead of the machine's OOM killer choosing a victim
        import resource

        lim = int(os.environ.get("VT_WORKER_AS_LIMIT_GB", "40")) << 30
        resource.setrlimit(resource.RLIMIT_AS, (lim, lim))
    except Exception:
        pass
    proto = os.fdopen(os.dup(1), "w")
    os.dup2(2, 1)
    sys.stdout = sys.stderr

    from . import env

    env.setup()
    from . import cover
    from .orchestrate import dumps

    covering = os.environ.get("VT_COVER", "1") == "1" and cover.start(env.REPO)

    mod = importlib.import_module(f"vt.props.{prop.lower()}")
    for line in sys.stdin:
        line = line.strip()
        if not line:
            continue
        spec = json.loads(line)
        t0 = time.time()
        try:
            res = mod.run_case(spec)
            res.setdefault("status", "ok")
        except BaseException as exc:  # harness failure: never a verdict
            if isinstance(exc, RuntimeError) and "Factor is exactly singular" in str(exc):
                # SuperLU refuses the singular (pure Neumann) Poisson matrix of this mesh outright. The
                # solver cannot be constructed for it; no property speaks about that: counted as a refusal.
                res = {"violations": [], "counters": {"refused_singular_poisson_factorisation": 1}, "classes": ["refused"], "nontrivial": False}
                res["case"] = spec.get("id")
                res["wall_s"] = round(time.time() - t0, 3)
                proto.write(dumps(res) + "\n")
                proto.flush()
                continue
            res = {
                "status": "harness_error",
                "error": "".join(traceback.format_exception(type(exc), exc, exc.__traceback__))[-3000:],
            }
        res["case"] = spec.get("id")
        res["wall_s"] = round(time.time() - t0, 3)
        proto.write(dumps(res) + "\n")
        proto.flush()
    if covering:
        proto.write(dumps({"_coverage": cover.snapshot()}) + "\n")
        proto.flush()


if __name__ == "__main__":
    main()
