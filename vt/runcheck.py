"""Offline checker of a recorded run against the executable specification
(vt/ref/runspec.py). Inputs: the TraceMonitor's trace (update returns and saves as
observed at the hooks), the HDF5 output file opened with h5py (the user-visible
boundary) and, optionally, the loaded tdgl.Solution."""
import os

import numpy as np

from . import simmon
from .ref import runspec

DATASETS = ("psi", "mu", "supercurrent", "normal_current", "induced_vector_potential", "applied_vector_potential", "epsilon")


def read_frames(path):
    """path: file name, an open h5py.File, or an already-read (frames, order) snapshot."""
    import h5py

    if isinstance(path, tuple):
        return path
    if isinstance(path, h5py.File):
        return _read_frames(path)
    with h5py.File(path, "r") as f:
        return _read_frames(f)


def _read_frames(f):
    frames = []
    if "data" not in f:
        return frames, []
    keys = sorted(f["data"].keys(), key=lambda s: int(s))
    order_in_file = list(f["data"].keys())
    for key in keys:
        g = f["data"][key]
        fr = {"number": int(key), "attrs": {k: (v.item() if hasattr(v, "item") else v) for k, v in g.attrs.items()},
              "hashes": {}, "running": None, "arrays": {}}
        for name in g:
            if name == "running_state":
                fr["running"] = {k: np.array(v) for k, v in g["running_state"].items()}
            else:
                a = np.array(g[name])
                fr["hashes"][name] = simmon.h(a)
                fr["arrays"][name] = a
        frames.append(fr)
    return frames, order_in_file


def check(tm, options, path, solution=None, complete=True, n_probes=0, screening=False, init_hashes=None):
    """Returns (violations, counters). `complete`: the run ended normally, so the whole
    specification applies; otherwise only the prefix clauses (C15)."""
    V, C = [], {}

    def viol(kind, mech, detail):
        V.append({"kind": kind, "mechanism": mech, "detail": detail})

    def cnt(k, n=1):
        C[k] = C.get(k, 0) + n

    k = int(options.save_every)
    sim_stages = [s for s in tm.stages if s["name"] == "Simulating"]
    th_stages = [s for s in tm.stages if s["name"] == "Thermalizing"]
    for s in th_stages:
        cnt("thermalisation_stages")
        if s["saves"]:
            viol("thermalisation_frame_recorded", "thermalisation_recorded", {"saves": len(s["saves"])})
    if not sim_stages:
        return V, C
    st = sim_stages[0]
    ups = [u for u in st["updates"] if not u.get("failed")]
    # the time step actually used by a step = dt of the last accepted solve_for_psi_squared call
    dts = [u.get("dt_used", u["dt"]) for u in ups]
    cnt("returned_dt_checks", len(ups))
    for u in ups:
        if u["dt"] != u.get("dt_used", u["dt"]):
            viol("returned_dt_ne_used_dt", "recorded_dt_ne_used_dt", {"step": u["step"], "returned": u["dt"], "used_by_accepted_solve": u.get("dt_used"), "refusals": u.get("refusals")})
            break
    frames, order_in_file = read_frames(path)
    cnt("runs_checked")

    if complete:
        N = runspec.final_step(dts, options.solve_time)
        if N is None:
            viol("stopped_early", "stopped_before_solve_time", {"updates": len(dts), "time_reached": sum(dts), "solve_time": options.solve_time})
            N = len(dts)
        cnt("stop_rule_checks")
        if len(dts) != N:
            viol("update_count_wrong", "update_after_stop_time",
                 {"updates_run": len(dts), "final_step_N": N, "k": k, "N_mod_k": N % k, "solve_time": options.solve_time})
        want_steps = runspec.frame_steps(N, k)
    else:
        N = None
        want_steps = None
    t = runspec.times_from(dts)

    # ---- frames: numbering, order, labels
    numbers = [fr["number"] for fr in frames]
    if numbers != list(range(len(frames))):
        viol("frame_numbers_not_consecutive", "frame_numbering", {"numbers": numbers[:20]})
    if [int(x) for x in order_in_file] != numbers:
        viol("frame_order_in_file", "frame_numbering", {"order": order_in_file[:20]})
    got_steps = [int(fr["attrs"].get("step", -1)) for fr in frames]
    cnt("frame_set_checks")
    if complete and got_steps != want_steps:
        mech = "frame_set_wrong"
        viol("frame_set_wrong", mech, {"got": got_steps, "want": want_steps, "N": N, "k": k})
    if not complete:
        # prefix: steps must be 0,k,2k,... possibly followed by one final partial step
        for i, s in enumerate(got_steps[:-1]):
            if s != i * k:
                viol("frame_set_wrong", "frame_set_wrong", {"got": got_steps, "k": k})
                break

    # state after s updates
    def state_hashes(s):
        if s == 0:
            if st.get("init") is not None:
                return st["init"]
            return init_hashes
        if s - 1 < len(ups):
            return ups[s - 1]["hashes"]
        return None

    prev_step = 0
    records = []  # per-step records reconstructed from the file, in order
    for fi, fr in enumerate(frames):
        s = got_steps[fi]
        a = fr["attrs"]
        cnt("frame_label_checks")
        if s < 0 or s >= len(t) + 1:
            viol("frame_step_label_out_of_range", "frame_label_wrong", {"frame": fi, "step": s})
            continue
        if s < len(t) and a.get("time") != t[s]:
            viol("frame_time_wrong", "frame_time_wrong", {"frame": fi, "step": s, "time": a.get("time"), "expected_sum_of_first_s_dt": t[s]})
        want = state_hashes(s)
        if want is not None:
            cnt("frame_content_checks")
            for name, hsh in fr["hashes"].items():
                if name in want and want[name] != hsh:
                    # which state is it, if any?
                    holds = None
                    for j in range(0, len(ups) + 1):
                        hh = state_hashes(j)
                        if hh is not None and hh.get(name) == hsh:
                            holds = j
                            break
                    mech = "frame_content_wrong"
                    if holds == s + 1 and fi == len(frames) - 1 and s % k != 0:
                        mech = "final_frame_holds_extra_update"
                    viol("frame_content_wrong", mech, {"frame": fi, "step_label": s, "dataset": name, "holds_state_after_updates": holds, "k": k, "N": N})
                    break
        # running state: records for steps prev_step .. s-1
        rs = fr["running"]
        cnt("running_state_checks")
        if fi == 0:
            if rs is not None and s == 0:
                viol("frame0_has_running_state", "running_state_wrong", {})
        else:
            c = s - prev_step
            if rs is None:
                if c > 0:
                    viol("running_state_missing", "running_state_missing", {"frame": fi, "step": s})
            else:
                cols = {}
                for name, arr in rs.items():
                    arr = np.asarray(arr)
                    if name in ("dt", "screening_iterations"):
                        arr = np.atleast_1d(arr).reshape(-1)
                        cols[name] = arr
                    else:
                        if arr.ndim == 1 and n_probes > 1:
                            arr = arr.reshape(n_probes, -1)
                        elif arr.ndim == 1:
                            arr = arr.reshape(1, -1)
                        cols[name] = arr
                ncol = len(cols["dt"]) if "dt" in cols else 0
                valid = int(np.sum(cols["dt"] > 0)) if "dt" in cols else 0
                if valid != c:
                    mech = "running_state_count_wrong"
                    if valid == c + 1 and fi == len(frames) - 1:
                        mech = "extra_step_record_in_final_frame"
                    viol("running_state_count_wrong", mech, {"frame": fi, "step": s, "records_in_frame": valid, "steps_since_previous_frame": c, "k": k})
                for j in range(min(c, ncol)):
                    rec = {"dt": float(cols["dt"][j])}
                    if "mu" in cols:
                        rec["mu"] = cols["mu"][:, j].tolist()
                    if "theta" in cols:
                        rec["theta"] = cols["theta"][:, j].tolist()
                    if "screening_iterations" in cols:
                        rec["si"] = float(cols["screening_iterations"][j])
                    records.append(rec)
        prev_step = s

    # per-step records exactly once, in order, equal to what update returned
    nrec = len(records)
    lim = N if complete else min(nrec, len(ups))
    cnt("record_checks", lim)
    if complete and nrec != N:
        viol("record_count_wrong", "record_count_wrong", {"records": nrec, "steps": N})
    for s in range(min(lim, nrec, len(ups))):
        u, r = ups[s], records[s]
        if r["dt"] != u.get("dt_used", u["dt"]):
            viol("record_dt_wrong", "recorded_dt_ne_used_dt", {"step": s, "file": r["dt"], "used": u.get("dt_used", u["dt"])})
            break
        if "probe_mu" in u and "mu" in r and r["mu"] != u["probe_mu"]:
            viol("record_mu_wrong", "record_wrong", {"step": s, "file": r["mu"], "returned": u["probe_mu"]})
            break
        if "probe_theta" in u and "theta" in r and r["theta"] != u["probe_theta"]:
            viol("record_theta_wrong", "record_wrong", {"step": s})
            break
        if screening and "si" in r:
            if r["si"] != u["screen_iters"]:
                viol("record_screening_iterations_wrong", "record_wrong", {"step": s, "file": r["si"], "iterations_run": u["screen_iters"]})
                break

    # loaded Solution
    if solution is not None and complete:
        cnt("solution_checks")
        want_t = [t[s] for s in want_steps if s < len(t)]
        try:
            times = solution.times
            got_t = None if times is None else [float(x) for x in np.asarray(times)]
        except Exception as exc:
            got_t = None
            viol("solution_times_raised", "solution_times_raised", {"error": repr(exc)[:200]})
        if got_t is not None and got_t != want_t:
            mech = "solution_times_wrong"
            if len(got_t) and len(want_t) and got_t[0] != 0.0 and want_t[0] == 0.0:
                mech = "solution_times_shifted_by_one_step"
            viol("solution_times_wrong", mech, {"got": got_t[:8], "want": want_t[:8], "k": k, "N": N})
        dyn = solution.dynamics
        if dyn is not None:
            gdt = [float(x) for x in np.asarray(dyn.dt)]
            if gdt != dts[:N]:
                mech = "dynamics_dt_wrong"
                if len(gdt) == N + 1 and gdt[:N] == dts[:N]:
                    mech = "extra_step_record_in_final_frame"
                viol("dynamics_dt_wrong", mech, {"len_got": len(gdt), "len_want": N})
            if n_probes and dyn.mu is not None:
                gm = np.asarray(dyn.mu)
                wm = np.array([u["probe_mu"] for u in ups[:N]]).T if N else np.zeros((n_probes, 0))
                if gm.shape != wm.shape or not np.array_equal(gm, wm):
                    if not (gm.shape[-1] == N + 1):
                        viol("dynamics_mu_wrong", "dynamics_wrong", {"shape_got": list(gm.shape), "shape_want": list(wm.shape)})
        # what the loaded solution DERIVES from those records: voltages / phase differences between probes, their time average,
        # look-up of a step or frame by its time
        if dyn is not None and N >= 1 and len(np.asarray(dyn.dt)) == N:
            cnt("derived_record_checks")
            try:
                tm_ = np.asarray(dyn.time, dtype=float)
                want_tm = np.cumsum(np.asarray(dts[:N]))
                if tm_.shape != want_tm.shape or np.max(np.abs(tm_ - want_tm)) > 1e-12 * max(1.0, float(want_tm[-1])):
                    viol("dynamics_time_wrong", "derived_records_wrong", {"got_tail": tm_[-3:].tolist(), "want_tail": want_tm[-3:].tolist()})
                else:
                    j_ = N // 2
                    if int(dyn.closest_time(float(want_tm[j_]))) != j_:
                        viol("closest_time_wrong", "derived_records_wrong", {"asked": float(want_tm[j_]), "got_index": int(dyn.closest_time(float(want_tm[j_]))), "want_index": j_})
                    lo_, hi_ = float(want_tm[N // 4]), float(want_tm[(3 * N) // 4])
                    idx_ = np.asarray(dyn.time_slice(lo_, hi_))
                    want_idx = np.where((tm_ >= lo_) & (tm_ <= hi_))[0]
                    if not np.array_equal(idx_, want_idx):
                        viol("time_slice_wrong", "derived_records_wrong", {"got": idx_.tolist()[:6], "want": want_idx.tolist()[:6]})
                    if n_probes >= 2 and dyn.mu is not None and np.asarray(dyn.mu).shape == (n_probes, N):
                        mu_ = np.array([u["probe_mu"] for u in ups[:N]], dtype=float).T
                        th_ = np.array([u["probe_theta"] for u in ups[:N]], dtype=float).T if all("probe_theta" in u for u in ups[:N]) else None
                        for (a_, b_) in ((0, 1), (n_probes - 1, 0)):
                            if not np.array_equal(np.asarray(dyn.voltage(a_, b_)), mu_[a_] - mu_[b_]):
                                viol("voltage_wrong", "derived_records_wrong", {"probes": [a_, b_]})
                            if th_ is not None and dyn.theta is not None and not np.array_equal(np.asarray(dyn.phase_difference(a_, b_)), th_[a_] - th_[b_]):
                                viol("phase_difference_wrong", "derived_records_wrong", {"probes": [a_, b_]})
                            v_ = mu_[a_] - mu_[b_]
                            w_ = np.asarray(dts[:N], dtype=float)
                            for (t0_, t1_) in ((-np.inf, np.inf), (lo_, hi_)):
                                sel = (want_tm >= t0_) & (want_tm <= t1_)
                                if sel.any():
                                    want_mv = float(np.sum(v_[sel] * w_[sel]) / np.sum(w_[sel]))
                                    got_mv = float(dyn.mean_voltage(a_, b_, tmin=t0_, tmax=t1_))
                                    if abs(got_mv - want_mv) > 1e-12 * (float(np.max(np.abs(v_))) + 1e-300):
                                        viol("mean_voltage_wrong", "derived_records_wrong", {"probes": [a_, b_], "window": [t0_, t1_], "got": got_mv, "want": want_mv})
                if got_t is not None and got_t == want_t and len(want_t) > 1:
                    jf = len(want_t) // 2
                    if int(solution.closest_solve_step(want_t[jf])) != jf:
                        viol("closest_solve_step_wrong", "derived_records_wrong", {"asked": want_t[jf], "got": int(solution.closest_solve_step(want_t[jf])), "want": jf})
            except Exception as exc:  # noqa: BLE001
                viol("derived_records_raised", "derived_records_raised", {"error": repr(exc)[:200]})
        # loading another frame changes which state is shown, not the run's clock or its per-step records
        if got_t is not None and dyn is not None and len(want_steps) > 1 and solution.path and os.path.exists(solution.path):
            import tdgl

            last = int(solution.solve_step)
            picks = sorted({0, len(want_steps) // 2, len(want_steps) - 2})
            for j in picks:
                cnt("frame_selection_checks")
                for how in ("attribute", "from_hdf5"):
                    try:
                        if how == "attribute":
                            solution.solve_step = j
                            sj = solution
                        else:
                            sj = tdgl.Solution.from_hdf5(solution.path, solve_step=j)
                        tj = [float(x) for x in np.asarray(sj.times)]
                        dj = [float(x) for x in np.asarray(sj.dynamics.dt)]
                        st = int(sj.tdgl_data.state["step"])
                    except Exception as exc:
                        viol("frame_selection_raised", "frame_selection_raised", {"frame": j, "how": how, "error": repr(exc)[:200]})
                        continue
                    if tj != got_t or dj != gdt:
                        viol("records_depend_on_loaded_frame", "records_depend_on_loaded_frame",
                             {"frame": j, "how": how, "times": [len(tj), len(got_t)], "dt_records": [len(dj), len(gdt)]})
                    if st != want_steps[j]:
                        viol("loaded_frame_is_another_step", "loaded_frame_is_another_step", {"frame": j, "how": how, "step": st, "want": want_steps[j]})
                    # what the loaded object reports for this frame is what the file holds under this frame (time-dependent drives
                    # included: the applied potential and epsilon of step s, not those of another step)
                    if j < len(frames):
                        for nm_, arr_ in frames[j]["arrays"].items():
                            got_ = getattr(sj.tdgl_data, nm_, None)
                            if got_ is None:
                                continue
                            cnt("loaded_frame_content_checks")
                            got_ = np.asarray(got_)
                            if got_.shape != arr_.shape or not np.array_equal(got_, arr_, equal_nan=True):
                                viol("loaded_frame_content_ne_file", "loaded_frame_content_ne_file",
                                     {"frame": j, "how": how, "dataset": nm_, "step": want_steps[j],
                                      "max_abs_diff": float(np.max(np.abs(got_ - arr_))) if got_.shape == arr_.shape else None})
                                break
            solution.solve_step = last
    return V, C
