"""Mesh zoo for the operator-level properties (C03, C04, C10)."""
import numpy as np

from . import zoo
from .ref import geom


def _hex_points(nx, ny, jitter=0.0, rng=None):
    pts = []
    for r in range(ny):
        for c in range(nx):
            pts.append([c + 0.5 * (r % 2), r * np.sqrt(3) / 2])
    pts = np.array(pts)
    if jitter and rng is not None:
        pts = pts + rng.uniform(-jitter, jitter, pts.shape)
    return pts


def _triangulate(points):
    from scipy.spatial import Delaunay

    tri = Delaunay(points)
    el = tri.simplices.copy()
    # drop slivers on the hull (degenerate triangles)
    a = geom.signed_tri_areas(points, el)
    flip = a < 0
    el[flip] = el[flip][:, [0, 2, 1]]
    a = np.abs(a)
    keep = a > 1e-6 * np.median(a)
    return el[keep]


def build_mesh(spec):
    """Returns (mesh, info) or (None, 'refused: ...')."""
    from tdgl.finite_volume.edge_mesh import EdgeMesh
    from tdgl.finite_volume.mesh import Mesh

    rng = np.random.default_rng(spec.get("seed", 0))
    kind = spec["kind"]
    try:
        if kind == "device":
            dev = zoo.build_device(spec["device"])
            return dev.mesh, {"kind": kind, "device": dev}
        if kind == "lattice":
            # exactly regular row-shifted lattice (no jitter): hx = 1, row spacing hy
            pts = np.array([[c + 0.5 * (r % 2), r * spec["hy"]] for r in range(spec["ny"]) for c in range(spec["nx"])], dtype=float)
            el = _triangulate(pts)
            return Mesh.from_triangulation(pts, el), {"kind": kind}
        if kind == "hex":
            pts = _hex_points(spec["nx"], spec["ny"], spec.get("jitter", 0.0), rng) * spec.get("scale", 1.0)
            el = _triangulate(pts)
            return Mesh.from_triangulation(pts, el), {"kind": kind}
        if kind == "delaunay":
            n = spec["n"]
            if spec.get("shape") == "annulus":
                r = np.sqrt(rng.uniform(0.3**2, 1.0, n))
                th = rng.uniform(0, 2 * np.pi, n)
                # ring of boundary points inside and outside to keep the hull regular
                nb = int(2.5 * np.sqrt(n)) + 8
                tb = np.linspace(0, 2 * np.pi, nb, endpoint=False)
                pts = np.concatenate([
                    np.stack([r * np.cos(th), r * np.sin(th)], 1)[: max(n - nb - nb // 3, 10)],
                    1.05 * np.stack([np.cos(tb), np.sin(tb)], 1),
                    0.25 * np.stack([np.cos(tb[::3]), np.sin(tb[::3])], 1),
                ])
                el = _triangulate(pts)
                cen = pts[el].mean(axis=1)
                el = el[np.hypot(cen[:, 0], cen[:, 1]) > 0.27]
            else:
                m = int(np.sqrt(n))
                gx, gy = np.meshgrid(np.arange(m), np.arange(m))
                pts = np.stack([gx.ravel(), gy.ravel()], 1).astype(float)
                interior = (gx.ravel() > 0) & (gx.ravel() < m - 1) & (gy.ravel() > 0) & (gy.ravel() < m - 1)
                pts[interior] += rng.uniform(-0.35, 0.35, (interior.sum(), 2))
                pts[~interior] += rng.uniform(-1e-3, 1e-3, ((~interior).sum(), 2))
                pts *= spec.get("scale", 1.0)
                el = _triangulate(pts)
            used = np.unique(el)
            remap = -np.ones(len(pts), dtype=int)
            remap[used] = np.arange(len(used))
            pts, el = pts[used], remap[el]
            return Mesh.from_triangulation(pts, el), {"kind": kind}
        if kind == "explicit":
            # arbitrary positive areas / dual lengths on a triangulation given explicitly
            base = spec["base"]
            if base["kind"] == "grid":
                nx, ny = base["nx"], base["ny"]
                gx, gy = np.meshgrid(np.arange(nx), np.arange(ny))
                pts = np.stack([gx.ravel(), gy.ravel()], 1).astype(float) * base.get("scale", 1.0)
                el = []
                for r in range(ny - 1):
                    for c in range(nx - 1):
                        a = r * nx + c
                        el.append([a, a + 1, a + nx + 1])
                        el.append([a, a + nx + 1, a + nx])
                el = np.array(el)
            else:
                m = int(np.sqrt(base["n"]))
                gx, gy = np.meshgrid(np.arange(m), np.arange(m))
                pts = np.stack([gx.ravel(), gy.ravel()], 1).astype(float)
                pts += rng.uniform(-0.3, 0.3, pts.shape)
                el = _triangulate(pts)
                used = np.unique(el)
                remap = -np.ones(len(pts), dtype=int)
                remap[used] = np.arange(len(used))
                pts, el = pts[used], remap[el]
            edges, counts, _ = geom.edges_from_elements(el)
            dirs = pts[edges[:, 1]] - pts[edges[:, 0]]
            lens = np.hypot(dirs[:, 0], dirs[:, 1])
            dec = spec.get("decades", 6)
            areas = 10.0 ** rng.uniform(-dec / 2, dec / 2, len(pts))
            duals = 10.0 ** rng.uniform(-dec / 2, dec / 2, len(edges))
            bidx = np.where(counts == 1)[0]
            if spec.get("zero_duals"):
                # exactly zero dual edge lengths occur in real meshes (boundary triangle with a right angle opposite
                # the boundary edge): the Laplacian weight of such an edge is 0, its gradient weight is not
                # (a matching: no site loses more than one of its couplings, so the Poisson matrix keeps a one-dimensional null space)
                z = np.zeros(len(edges), dtype=bool)
                used = np.zeros(len(pts), dtype=bool)
                order = np.concatenate([rng.permutation(bidx)[: max(1, len(bidx) // 4)], rng.permutation(len(edges))])
                target = max(2, int(spec["zero_duals"] * len(edges)))
                for k_ in order:
                    a_, b_ = edges[k_]
                    if not used[a_] and not used[b_] and not z[k_]:
                        z[k_] = True
                        used[a_] = used[b_] = True
                        if z.sum() >= target:
                            break
                duals = np.where(z, 0.0, duals)
            em = EdgeMesh(
                centers=pts[edges].mean(axis=1),
                edges=edges,
                boundary_edge_indices=bidx,
                directions=dirs,
                edge_lengths=lens,
                dual_edge_lengths=duals,
            )
            mesh = Mesh(
                sites=pts,
                elements=el,
                boundary_indices=np.unique(edges[bidx].ravel()),
                areas=areas,
                dual_sites=geom.circumcenters(pts, el),
                edge_mesh=em,
                voronoi_polygons=None,
            )
            return mesh, {"kind": kind}
    except ValueError as exc:
        if "Malformed Voronoi" in str(exc):
            return None, "refused: malformed voronoi"
        if "Points cannot contain NaN" in str(exc):
            # a degenerate (zero-area) triangle gives a NaN circumcentre; qhull then refuses the cell
            return None, "refused: degenerate triangle (NaN circumcentre)"
        raise
    raise ValueError(kind)


def gen_mesh_specs(rng, n, max_sites=300, include_explicit=True):
    specs = []
    kinds = ["device", "device", "hex", "delaunay", "annulus", "device_hole", "device_smooth"]
    if include_explicit:
        kinds += ["explicit_grid", "explicit_delaunay"]
    for k in range(n):
        kind = kinds[k % len(kinds)]
        seed = int(rng.integers(1 << 30))
        size = "small" if max_sites <= 300 else str(rng.choice(["small", "medium", "large"]))
        if kind == "device":
            nt = int(rng.choice([0, 2, 3]))
            specs.append({"kind": "device", "device": zoo.gen_device(rng, n_terminals=nt, probes=0, size=size)})
        elif kind == "device_hole":
            specs.append({"kind": "device", "device": zoo.gen_device(rng, n_terminals=int(rng.choice([0, 2])), n_holes=int(rng.choice([1, 2])), probes=0, size="medium" if size == "small" else size)})
        elif kind == "device_smooth":
            specs.append({"kind": "device", "device": zoo.gen_device(rng, n_terminals=0, probes=0, size=size, smooth=int(rng.choice([1, 10, 100])), film_kind=str(rng.choice(["box", "ellipse", "cross", "L"])))})
        elif kind == "hex":
            specs.append({"kind": "hex", "nx": int(rng.integers(5, 14)), "ny": int(rng.integers(5, 14)), "jitter": float(rng.choice([0.0, 0.05, 0.15])), "scale": float(rng.choice([1.0, 0.3, 7.0])), "seed": seed})
        elif kind == "delaunay":
            specs.append({"kind": "delaunay", "n": int(rng.integers(49, min(max_sites, 400))), "scale": float(rng.choice([1.0, 0.1, 20.0])), "seed": seed})
        elif kind == "annulus":
            specs.append({"kind": "delaunay", "shape": "annulus", "n": int(rng.integers(120, 320)), "seed": seed})
        elif kind == "explicit_grid":
            specs.append({"kind": "explicit", "base": {"kind": "grid", "nx": int(rng.integers(4, 12)), "ny": int(rng.integers(4, 12)), "scale": float(rng.choice([1.0, 0.25]))}, "decades": int(rng.choice([2, 4, 6])), "seed": seed})
        else:
            specs.append({"kind": "explicit", "base": {"kind": "delaunay", "n": int(rng.integers(36, 200))}, "decades": int(rng.choice([2, 4, 6])), "seed": seed})
    return specs
