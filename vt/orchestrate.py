"""Check driver: shards case specs over persistent worker subprocesses, applies
watchdogs, classifies reports against known_findings.json, writes evidence and
replay files, prints the verdict.

exit 0  held on everything explored (KNOWN-FINDING lines allowed)
exit 1  at least one violation that known_findings.json does not list
exit 2  inconclusive (worker death / watchdog / deciding monitor never evaluated)
"""
import argparse
import hashlib
import importlib
import json
import os
import queue
import shutil
import subprocess
import sys
import threading
import time

from . import env

VERIF = env.VERIF
NWORKERS = int(os.environ.get("VERIF_WORKERS", "16"))
COVER = {}
COVER_LOCK = threading.Lock()


def _json_default(o):
    try:
        import numpy as np

        if isinstance(o, np.integer):
            return int(o)
        if isinstance(o, np.floating):
            return float(o)
        if isinstance(o, np.bool_):
            return bool(o)
        if isinstance(o, np.ndarray):
            return o.tolist()
        if isinstance(o, complex):
            return [o.real, o.imag]
    except Exception:
        pass
    return repr(o)


def dumps(o, **kw):
    return json.dumps(o, default=_json_default, **kw)


class Worker:
    """One persistent worker subprocess speaking a JSON-lines protocol."""

    def __init__(self, prop, idx, rundir, extra_env=None):
        self.prop = prop
        self.idx = idx
        self.rundir = rundir
        self.extra_env = extra_env or {}
        self.proc = None
        self.start()

    def start(self):
        e = dict(os.environ)
        e["PYTHONPATH"] = VERIF + os.pathsep + e.get("PYTHONPATH", "")
        e.setdefault("PYTHONHASHSEED", "0")
        e.setdefault("NUMBA_NUM_THREADS", "1")
        e.setdefault("OMP_NUM_THREADS", "1")
        e.setdefault("OPENBLAS_NUM_THREADS", "1")
        e["TQDM_DISABLE"] = "1"
        e["MPLBACKEND"] = "Agg"
        e.update({k: str(v) for k, v in self.extra_env.items()})
        self.log = open(os.path.join(self.rundir, f"worker{self.idx}.log"), "ab")
        self.proc = subprocess.Popen(
            ["/venv/bin/python", "-X", "faulthandler", "-m", "vt.worker", self.prop],
            stdin=subprocess.PIPE,
            stdout=subprocess.PIPE,
            stderr=self.log,
            env=e,
            cwd=self.rundir,
        )

    def run_case(self, spec, timeout):
        """Returns (result dict | None, reason)."""
        if self.proc is None or self.proc.poll() is not None:
            self.start()
        self._fired = False
        timer = threading.Timer(timeout, self._kill_timeout)
        timer.start()
        try:
            self.proc.stdin.write((dumps(spec) + "\n").encode())
            self.proc.stdin.flush()
            line = self.proc.stdout.readline()
        except (BrokenPipeError, OSError):
            line = b""
        finally:
            timer.cancel()
            fired = self._fired
        if not line:
            rc = self.proc.poll()
            self.close()
            return None, ("watchdog" if fired else f"worker_died rc={rc}")
        try:
            return json.loads(line), None
        except Exception as exc:  # corrupted protocol
            self.close()
            return None, f"bad_reply {exc!r}"

    def _kill_timeout(self):
        self._fired = True
        self._kill()

    def _kill(self):
        try:
            self.proc.kill()
        except Exception:
            pass

    def close(self):
        if self.proc is not None:
            try:
                self.proc.stdin.close()
            except Exception:
                pass
            try:
                rest = self.proc.stdout.read()
                for line in rest.splitlines():
                    if line.startswith(b'{"_coverage"'):
                        cov = json.loads(line)["_coverage"]
                        with COVER_LOCK:
                            for f, lines in cov.items():
                                COVER.setdefault(f, set()).update(lines)
            except Exception:
                pass
            try:
                self.proc.wait(timeout=5)
            except Exception:
                self._kill()
            self.proc = None
        try:
            self.log.close()
        except Exception:
            pass


def run_cases(prop, cases, rundir, case_timeout, nworkers=NWORKERS):
    """Run all case specs; returns list of (spec, result|None, reason)."""
    q = queue.Queue()
    # expensive cases first for balance
    order = sorted(range(len(cases)), key=lambda i: -float(cases[i].get("cost", 1)))
    for i in order:
        q.put(i)
    out = [None] * len(cases)
    lock = threading.Lock()

    def loop(widx):
        w = None
        while True:
            try:
                i = q.get_nowait()
            except queue.Empty:
                break
            spec = cases[i]
            if spec.get("env"):
                # fresh one-shot process with its own environment
                ww = Worker(prop, f"{widx}_fresh", rundir, extra_env=spec["env"])
                res, reason = ww.run_case(spec, spec.get("timeout", case_timeout))
                ww.close()
            else:
                if w is None:
                    w = Worker(prop, widx, rundir)
                res, reason = w.run_case(spec, spec.get("timeout", case_timeout))
            with lock:
                out[i] = (spec, res, reason)
        if w is not None:
            w.close()

    n = max(1, min(nworkers, len(cases)))
    threads = [threading.Thread(target=loop, args=(k,), daemon=True) for k in range(n)]
    for t in threads:
        t.start()
    for t in threads:
        t.join()
    return out


def reach_summary():
    """lines of the repository's own modules executed by this check's workers / executable lines"""
    from . import cover

    if os.environ.get("VT_COVER_DUMP"):  # development aid (tools/unreached.py): the raw line sets
        with open(os.environ["VT_COVER_DUMP"], "w") as f:
            json.dump({k: sorted(v) for k, v in COVER.items()}, f)
    out = {}
    for f, lines in sorted(COVER.items()):
        ex = cover.executable_lines(os.path.join(env.REPO, "tdgl", f))
        if ex:
            out[f] = {"hit": len(set(lines) & ex), "executable": len(ex)}
    return out


def load_known(prop):
    path = os.path.join(VERIF, "known_findings.json")
    if not os.path.exists(path):
        return {}
    with open(path) as f:
        data = json.load(f)
    known = {}
    for ent in data.get("findings", []):
        if ent.get("property") == prop and ent.get("status") == "open":
            known[ent["mechanism"]] = ent
    return known


def spec_hash(spec):
    s = json.dumps({k: v for k, v in spec.items() if k not in ("id",)}, sort_keys=True, default=repr)
    return hashlib.sha256(s.encode()).hexdigest()[:16]


def main(argv=None):
    ap = argparse.ArgumentParser()
    ap.add_argument("prop")
    ap.add_argument("--tier", default=os.environ.get("VERIF_TIER", "quick"))
    ap.add_argument("--seed", type=int, default=int(os.environ.get("VERIF_SEED", "0")))
    ap.add_argument("--replay", default=None)
    ap.add_argument("--no-evidence", action="store_true")
    ap.add_argument("--limit", type=int, default=None)
    args = ap.parse_args(argv)
    prop = args.prop.upper()
    tier = args.tier if args.tier in ("quick", "thorough") else "quick"
    t0 = time.time()

    mod = importlib.import_module(f"vt.props.{prop.lower()}")
    rundir = os.path.join(VERIF, ".run", prop + ("_replay" if args.replay else "") + f"_{os.getpid()}")
    shutil.rmtree(rundir, ignore_errors=True)
    os.makedirs(rundir, exist_ok=True)

    if args.replay:
        with open(args.replay) as f:
            rp = json.load(f)
        cases = [rp["spec"]]
    else:
        cases = mod.gen_cases(tier, args.seed)
        if args.limit:
            cases = cases[: args.limit]
    for i, c in enumerate(cases):
        c.setdefault("id", f"{prop}-{tier[0]}{args.seed}-{i:05d}")

    case_timeout = getattr(mod, "CASE_TIMEOUT", {"quick": 300, "thorough": 900})[tier]
    results = run_cases(prop, cases, rundir, case_timeout)
    # a worker death or watchdog firing is retried once, alone (a loaded machine must not decide a verdict)
    retry = [i for i, (_, r, _) in enumerate(results) if r is None]
    if retry and len(retry) <= max(4, len(cases) // 10):
        for i in retry:
            again = run_cases(prop, [dict(cases[i], timeout=2 * cases[i].get("timeout", case_timeout))], rundir, 2 * case_timeout, nworkers=1)
            if again[0][1] is not None:
                results[i] = again[0]

    # optional cross-case analysis (differential properties)
    extra = []
    extra_counters = {}
    if hasattr(mod, "finalize"):
        fin = mod.finalize([r for (_, r, _) in results if r is not None and r.get("status") != "harness_error"], tier) or []
        if isinstance(fin, dict):
            extra = fin.get("violations", [])
            extra_counters = fin.get("counters", {})
        else:
            extra = fin

    known = load_known(prop)
    violations = []  # (spec, violation dict)
    inconclusive = []
    counters = {}
    classes = {}
    nontrivial_keys = {}
    samples = []
    observations = {}
    worst = {}
    for spec, res, reason in results:
        if res is None:
            inconclusive.append({"case": spec["id"], "reason": reason})
            continue
        if res.get("status") == "harness_error" and "Factor is exactly singular" in str(res.get("error")):
            # SuperLU refused the singular Poisson matrix of this mesh: a refusal class (see DESIGN 2b)
            counters["refused_singular_poisson_factorisation"] = counters.get("refused_singular_poisson_factorisation", 0) + 1
            classes["refused"] = classes.get("refused", 0) + 1
            continue
        if res.get("status") == "harness_error" and ("Solver failed to converge" in str(res.get("error")) or "Screening calculation failed to converge" in str(res.get("error"))):
            # a PREPARATORY run of the workload (seed, first part, reference) gave up inside the solver: the workload could not be
            # set up - a non-result class, counted; the checks that judge non-convergence (C12, C13, C17) do so before this point
            counters["workload_runs_ending_in_nonconvergence"] = counters.get("workload_runs_ending_in_nonconvergence", 0) + 1
            classes["nonconvergence"] = classes.get("nonconvergence", 0) + 1
            continue
        if res.get("status") == "harness_error":
            inconclusive.append({"case": spec["id"], "reason": "harness_error: ..." + str(res.get("error"))[-700:].replace("\n", " | ")})
            continue
        for k, v in (res.get("counters") or {}).items():
            counters[k] = counters.get(k, 0) + v
        for c in res.get("classes") or []:
            classes[c] = classes.get(c, 0) + 1
        for k, v in (res.get("observations") or {}).items():
            observations[k] = observations.get(k, 0) + v
        for k, v in (res.get("worst") or {}).items():
            if v is not None and (k not in worst or v > worst[k]):
                worst[k] = v
        if res.get("nontrivial"):
            nontrivial_keys[res.get("key") or spec_hash(spec)] = int(res.get("nontrivial_n", 1))
        if res.get("sample") is not None and len(samples) < 6:
            samples.append({"case": spec["id"], "spec": {k: v for k, v in spec.items() if k != "id"}, "observed": res["sample"]})
        for v in res.get("violations") or []:
            violations.append((spec, v))
    for k, v in extra_counters.items():
        counters[k] = counters.get(k, 0) + v
    for v in extra:
        violations.append((v.get("spec") or {"id": v.get("case", prop + "-finalize")}, v))

    # deciding-monitor counters that must be non-zero
    for name in getattr(mod, "REQUIRED_COUNTERS", []):
        if not args.replay and counters.get(name, 0) == 0:
            inconclusive.append({"case": "*", "reason": f"monitor {name} never evaluated"})

    new, seen_known = [], {}
    # development runs (--no-evidence, e.g. against a mutated tree) keep their replays apart
    replay_root = os.path.join(VERIF, "replays") if not args.no_evidence else os.path.join(VERIF, ".run", f"replays_{os.getpid()}")
    if not args.replay:
        shutil.rmtree(os.path.join(replay_root, prop), ignore_errors=True)
    os.makedirs(os.path.join(replay_root, prop), exist_ok=True)
    for spec, v in violations:
        mech = v.get("mechanism")
        if mech in known:
            seen_known.setdefault(mech, []).append((spec, v))
            continue
        new.append((spec, v))

    for mech, items in seen_known.items():
        ent = known[mech]
        print(f"KNOWN-FINDING: property={prop} mechanism={mech} ({len(items)} case(s)) {ent.get('what', '')}")

    reported = set()
    for spec, v in new:
        key = (spec.get("id"), v.get("mechanism"), v.get("kind"))
        if key in reported:
            continue
        reported.add(key)
        rpath = os.path.join(replay_root, prop, f"{spec.get('id')}.json")
        with open(rpath, "w") as f:
            f.write(dumps({"property": prop, "spec": spec, "witness": v}, indent=1))
        if len(reported) <= 40:
            print(f"VIOLATION property={prop} replay={rpath}")
            print(f"  kind={v.get('kind')} mechanism={v.get('mechanism')} detail={str(v.get('detail'))[:600]}")
    if len(reported) > 40:
        print(f"  ... {len(reported) - 40} more violations (see replays/{prop}/)")

    for inc in inconclusive[:20]:
        print(f"INCONCLUSIVE property={prop} case={inc['case']} reason={inc['reason']}")

    wall = time.time() - t0
    if not args.replay and not args.no_evidence:
        level = getattr(mod, "LEVEL", "exploration")
        ev = {
            "property_id": prop,
            "tier": tier,
            "seed": args.seed,
            "level": level,
            "coverage": {
                "evaluations": len(cases),
                "distinct_nontrivial": sum(nontrivial_keys.values()),
                "rule": getattr(mod, "RULE", ""),
                "samples": samples if samples else [{"note": "no sample produced"}],
                "monitor_evaluations": counters,
                "classes": classes,
                "observations": observations,
                "worst_observed": worst,
                "known_findings_seen": {m: len(i) for m, i in seen_known.items()},
                "inconclusive_cases": inconclusive[:50],
                "exhaustive": bool(getattr(mod, "EXHAUSTIVE", {}).get(tier, False)),
                "repo": env.REPO,
                "repository_statement_reach": reach_summary(),
            },
            "assumptions": getattr(mod, "ASSUMPTIONS", []),
            "wall_s": round(wall, 2),
            "violations": len(reported),
        }
        os.makedirs(os.path.join(VERIF, "evidence"), exist_ok=True)
        with open(os.path.join(VERIF, "evidence", f"{prop}.json"), "w") as f:
            f.write(dumps(ev, indent=1))

    summary = (
        f"{prop} tier={tier} seed={args.seed} cases={len(cases)} nontrivial={sum(nontrivial_keys.values())} "
        f"violations={len(reported)} known={sum(len(i) for i in seen_known.values())} "
        f"inconclusive={len(inconclusive)} wall={wall:.1f}s"
    )
    print(summary)
    print("monitor evaluations:", dumps(counters))
    if reported:
        return 1
    if inconclusive:
        return 2
    shutil.rmtree(rundir, ignore_errors=True)
    return 0


if __name__ == "__main__":
    sys.exit(main())
