"""Flight recorder: wrappers on the real tdgl functions, installed by rebinding
class / module attributes at run time (no source hooks). Wrappers copy, never
mutate, never draw from numpy's global RNG, and count their evaluations.

Listeners are plain objects; the recorder calls whichever of these they define:
  on_solver(solver)
  on_update_begin(ctx)            ctx: dict(index, stage, step, time, dt_label, tentative_dt, inputs{...}, running_step)
  on_update_end(ctx, result, exc) result: SolverResult or None
  on_spsq(ctx, kwargs, result)    every solve_for_psi_squared call (retries included)
  on_observables(ctx, psi, dA_dt, out)
  on_induced(ctx, current_density, A_prev, out)   out=(A_induced, error)
  on_kernel(ctx, args, poisoned_left)             get_A_induced_numba call
  on_link(ops, A, was_build)
  on_stage_begin(name, save) / on_stage_end(name, ok, exc)
  on_save_begin(handler, state, data, running) / on_save_end(handler, exc)
  on_handler_enter(handler) / on_handler_close(handler)
  on_tempdir(path)
"""
import functools
import tempfile

import numpy as np


def _copy(x):
    if isinstance(x, np.ndarray):
        return x.copy()
    return x


class Recorder:
    def __init__(self, listeners=(), failpoints=None):
        self.listeners = list(listeners)
        self.failpoints = failpoints  # object with maybe_fail(point, **info)
        self.counts = {}
        self._undo = []
        self.cur = None  # current update ctx
        self.stage = None
        self.update_index = 0
        self.solver = None

    # ------------------------------------------------------------------
    def emit(self, name, *a, **k):
        self.counts[name] = self.counts.get(name, 0) + 1
        for l in self.listeners:
            fn = getattr(l, name, None)
            if fn is not None:
                fn(*a, **k)

    def fail(self, point, **info):
        if self.failpoints is not None:
            self.failpoints.maybe_fail(point, **info)

    def _patch(self, obj, name, new):
        old = obj.__dict__[name] if isinstance(obj, type) else getattr(obj, name)
        self._undo.append((obj, name, old))
        setattr(obj, name, new)

    # ------------------------------------------------------------------
    def install(self):
        import tdgl.solver.solver as S
        from tdgl.finite_volume.operators import MeshOperators
        from tdgl.solver.runner import DataHandler, Runner

        rec = self
        TS = S.TDGLSolver

        o_init = TS.__init__

        @functools.wraps(o_init)
        def w_init(self, *a, **k):
            o_init(self, *a, **k)
            rec.solver = self
            rec.emit("on_solver", self)

        self._patch(TS, "__init__", w_init)

        o_update = TS.update

        @functools.wraps(o_update)
        def w_update(self, state, running_state, dt, *xa, **kw):
            ctx = {
                "index": rec.update_index,
                "stage": rec.stage,
                "step": int(state["step"]),
                "time": float(state["time"]),
                "dt_label": float(dt),
                "tentative_dt": float(self.tentative_dt),
                "inputs": {k: _copy(v) for k, v in kw.items()},
                "running_step": int(running_state.step),
                "spsq_calls": 0,
                "refusals": 0,
                "attempt_dts": [],
                "screen_iters": 0,
                "solver": self,
            }
            rec.update_index += 1
            rec.cur = ctx
            rec.emit("on_update_begin", ctx)
            rec.fail("update_entry", stage=rec.stage, step=ctx["step"])
            try:
                res = o_update(self, state, running_state, dt, *xa, **kw)
            except BaseException as exc:
                rec.emit("on_update_end", ctx, None, exc)
                rec.cur = None
                raise
            ctx["tentative_dt_after"] = float(self.tentative_dt)
            rec.emit("on_update_end", ctx, res, None)
            rec.cur = None
            rec.fail("update_exit", stage=rec.stage, step=ctx["step"])
            return res

        self._patch(TS, "update", w_update)

        o_spsq = TS.__dict__["solve_for_psi_squared"].__func__

        class _RaisingOperator:
            """Stands in for the Laplacian of one call: the product psi_laplacian @ psi is evaluated INSIDE the method's
            arithmetic block, so a fault raised here arrives in the middle of that block."""

            def __init__(self, inner, exc):
                self.inner, self.exc = inner, exc

            def __matmul__(self, other):
                raise self.exc

        def w_spsq(**kw):
            ctx0 = rec.cur
            if ctx0 is not None and rec.failpoints is not None and hasattr(rec.failpoints, "inside_spsq"):
                exc_ = rec.failpoints.inside_spsq(stage=rec.stage, step=ctx0["step"], n=ctx0["spsq_calls"])
                if exc_ is not None:
                    kw = dict(kw, psi_laplacian=_RaisingOperator(kw["psi_laplacian"], exc_))
            refuse_ = False
            if ctx0 is not None and rec.failpoints is not None and hasattr(rec.failpoints, "refuse_spsq"):
                # an injected REFUSAL (the method's documented 'no solution for this dt' answer), e.g. in a later screening iteration
                refuse_ = bool(rec.failpoints.refuse_spsq(stage=rec.stage, step=ctx0["step"], n=ctx0["spsq_calls"], screening_iteration=ctx0["screen_iters"]))
            res = None if refuse_ else o_spsq(**kw)
            ctx = rec.cur
            if ctx is not None:
                ctx["spsq_calls"] += 1
                ctx["attempt_dts"].append(float(kw["dt"]))
                if res is None:
                    ctx["refusals"] += 1
                else:
                    ctx["last_ok_dt"] = float(kw["dt"])
            rec.emit("on_spsq", ctx, kw, res)
            return res

        self._patch(TS, "solve_for_psi_squared", staticmethod(w_spsq))

        o_obs = TS.solve_for_observables

        @functools.wraps(o_obs)
        def w_obs(self, psi, dA_dt, *xa, **xk):
            # (extra arguments a refactoring may add are passed through: the wrapper observes, it does not fix the signature)
            out = o_obs(self, psi, dA_dt, *xa, **xk)
            rec.emit("on_observables", rec.cur, psi, dA_dt, out)
            if rec.cur is not None:
                # a point in the MIDDLE of update(): the n-th evaluation of the observables (n > 0: later screening iterations)
                n = rec.cur.get("obs_calls", 0)
                rec.cur["obs_calls"] = n + 1
                rec.fail("update_middle", stage=rec.stage, step=rec.cur["step"], n=n)
            return out

        self._patch(TS, "solve_for_observables", w_obs)

        o_ind = TS.get_induced_vector_potential

        @functools.wraps(o_ind)
        def w_ind(self, current_density, A_induced_vals, velocity, *xa, **xk):
            A_prev = _copy(A_induced_vals[-1])
            buf = getattr(self, "new_A_induced", None)
            if isinstance(buf, np.ndarray):
                buf[...] = np.nan  # the solver's kernel output buffer is write-only: every row must be written by this call
            out = o_ind(self, current_density, A_induced_vals, velocity, *xa, **xk)
            if isinstance(buf, np.ndarray) and np.all(np.isfinite(np.asarray(current_density))):
                rec.emit("on_induced_buffer", rec.cur, int(np.isnan(buf).any(axis=1).sum()), len(buf))
            if rec.cur is not None:
                rec.cur["screen_iters"] += 1
            rec.emit("on_induced", rec.cur, current_density, A_prev, out)
            if rec.cur is not None:
                rec.fail("induced_exit", stage=rec.stage, step=rec.cur["step"], n=rec.cur["screen_iters"] - 1)
            return out

        self._patch(TS, "get_induced_vector_potential", w_ind)

        o_kernel = S.get_A_induced_numba

        def w_kernel(J_site, areas, sites, edge_centers, out, *xa, **xk):
            out[...] = np.nan  # uninitialised-read / partial-write detector
            o_kernel(J_site, areas, sites, edge_centers, out, *xa, **xk)
            if np.all(np.isfinite(J_site)):
                left = int(np.isnan(out).sum())
            else:  # diverged iteration: NaN in, NaN out is legitimate
                left = 0
                rec.counts["kernel_nonfinite_inputs"] = rec.counts.get("kernel_nonfinite_inputs", 0) + 1
            rec.emit("on_kernel", rec.cur, (J_site, areas, sites, edge_centers, out), left)

        self._patch(S, "get_A_induced_numba", w_kernel)

        o_link = MeshOperators.set_link_exponents

        @functools.wraps(o_link)
        def w_link(self, link_exponents, *xa, **xk):
            was_build = self.psi_gradient is None
            A = np.array(link_exponents, copy=True)
            o_link(self, link_exponents, *xa, **xk)
            rec.emit("on_link", self, A, was_build)

        self._patch(MeshOperators, "set_link_exponents", w_link)

        o_stage = Runner._run_stage

        @functools.wraps(o_stage)
        def w_stage(self, name, start_time, end_time, save=True, *xa, **xk):
            rec.stage = name
            rec.runner = self
            rec.emit("on_stage_begin", name, save)
            try:
                ok = o_stage(self, name, start_time, end_time, save, *xa, **xk)
            except BaseException as exc:
                rec.emit("on_stage_end", name, None, exc)
                raise
            rec.emit("on_stage_end", name, ok, None)
            return ok

        self._patch(Runner, "_run_stage", w_stage)

        o_save = DataHandler.save_time_step

        @functools.wraps(o_save)
        def w_save(self, state, data, running_state, *xa, **xk):
            st = dict(state)
            dd = {k: _copy(v) for k, v in data.items()}
            rs = None if running_state is None else {k: _copy(v) for k, v in running_state.items()}
            rec.emit("on_save_begin", self, st, dd, rs)
            rec.fail("save_entry", stage=rec.stage, step=int(st["step"]), handler=self)
            try:
                o_save(self, state, data, running_state, *xa, **xk)
            except BaseException as exc:
                rec.emit("on_save_end", self, exc)
                raise
            rec.emit("on_save_end", self, None)
            rec.fail("save_exit", stage=rec.stage, step=int(st["step"]), handler=self)

        self._patch(DataHandler, "save_time_step", w_save)

        o_enter = DataHandler.__enter__

        @functools.wraps(o_enter)
        def w_enter(self, *xa, **xk):
            r = o_enter(self, *xa, **xk)
            rec.emit("on_handler_enter", self)
            return r

        self._patch(DataHandler, "__enter__", w_enter)

        o_close = DataHandler.close

        @functools.wraps(o_close)
        def w_close(self, *xa, **xk):
            rec.emit("on_handler_closing", self)
            try:
                return o_close(self, *xa, **xk)
            finally:
                rec.emit("on_handler_close", self)

        self._patch(DataHandler, "close", w_close)

        o_td = tempfile.TemporaryDirectory.__init__

        @functools.wraps(o_td)
        def w_td(self, *a, **k):
            o_td(self, *a, **k)
            rec.emit("on_tempdir", self.name)

        self._patch(tempfile.TemporaryDirectory, "__init__", w_td)

        # the live monitor (options.monitor=True) is a detached plotting process: the harness records that it was asked for and
        # does not start it (no display here; the simulation side of the option is what the checks look at)
        import tdgl.solver.runner as R

        real_sp = getattr(R, "subprocess", None)
        if real_sp is not None:
            class _NoProcess:
                pid, returncode = -1, 0

                def poll(self):
                    return 0

                def wait(self, *a, **k):
                    return 0

                def kill(self):
                    pass

                terminate = kill

            class _SubprocessShim:
                def __getattr__(self, name):
                    return getattr(real_sp, name)

                def Popen(self, cmd, *a, **k):
                    rec.counts["monitor_spawn_requests"] = rec.counts.get("monitor_spawn_requests", 0) + 1
                    rec.monitor_cmds = getattr(rec, "monitor_cmds", []) + [list(cmd)]
                    return _NoProcess()

            self._patch(R, "subprocess", _SubprocessShim())
        return self

    def uninstall(self):
        for obj, name, old in reversed(self._undo):
            setattr(obj, name, old)
        self._undo = []

    def __enter__(self):
        return self.install()

    def __exit__(self, *a):
        self.uninstall()
