"""Linear stability bound of the explicit scheme on a given mesh (harness-side).

dt* = 2u / (sqrt(1+gamma^2) * lambda_max(-L)); outside it rounding differences between two
mathematically equivalent runs are amplified exponentially (see C17), so differential
comparisons (C04, C08) keep their runs inside 0.5 dt*."""
import numpy as np
import scipy.linalg as sla

from . import simmon
from .ref import fv


def dt_star(device):
    g = simmon.MeshGeo(device.mesh)
    L = fv.laplacian_fast(g.n, g.edges, g.elen, g.s, g.areas, g.dirs, None, None).toarray().real
    sq = 1 / np.sqrt(g.areas)
    S = (L * g.areas[:, None]) * sq[:, None] * sq[None, :]
    lam = float(np.max(-sla.eigvalsh((S + S.T) / 2)))
    # (LAPACK's eigenvalues depend on the BLAS thread count in the last bits; the step handed to the library as an INPUT must not:
    #  it is rounded to 9 significant digits)
    return float(f"{2 * device.layer.u / (np.sqrt(1 + device.layer.gamma**2) * lam):.9g}")


def clamp(o, dts, nsteps):
    """Options dict restricted to the stable regime, ~nsteps steps long."""
    o = dict(o)
    if o.get("adaptive", True):
        o["dt_max"] = 0.5 * dts
        o["dt_init"] = min(o.get("dt_init", 1e-3), 0.1 * dts)
        o["solve_time"] = 0.6 * nsteps * o["dt_max"]
    else:
        o["dt_init"] = 0.4 * dts
        o["dt_max"] = max(o.get("dt_max", 0.1), o["dt_init"])
        o["solve_time"] = nsteps * o["dt_init"] - 0.5 * o["dt_init"]  # (no tie between the accumulated time and the end time)
    o.pop("auto_dt", None)  # the step is fixed HERE, once, for every run of a differential pair
    return o
