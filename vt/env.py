"""Process environment for every harness process: the working tree under test
(VERIF_REPO, default /repo) goes FIRST on sys.path so that `import tdgl` is the
tree being checked (this shadows the editable install; asserted in setup())."""
import os
import sys

REPO = os.path.abspath(os.environ.get("VERIF_REPO", "/repo"))
VERIF = os.path.dirname(os.path.dirname(os.path.abspath(__file__)))


def setup(numba_threads=None):
    os.environ.setdefault("TQDM_DISABLE", "1")
    os.environ.setdefault("MPLBACKEND", "Agg")
    os.environ.setdefault("OMP_NUM_THREADS", "1")
    os.environ.setdefault("OPENBLAS_NUM_THREADS", "1")
    os.environ.setdefault("MKL_NUM_THREADS", "1")
    if numba_threads is not None:
        os.environ["NUMBA_NUM_THREADS"] = str(numba_threads)
    else:
        os.environ.setdefault("NUMBA_NUM_THREADS", "1")
    # guard for (currently non-existent) source hooks
    os.environ.setdefault("TDGL_VERIF", "1")
    if not sys.path or sys.path[0] != REPO:
        sys.path.insert(0, REPO)
    import logging

    logging.disable(logging.WARNING)


def import_tdgl():
    setup()
    import tdgl

    here = os.path.dirname(os.path.dirname(os.path.abspath(tdgl.__file__)))
    if os.path.realpath(here) != os.path.realpath(REPO):
        raise RuntimeError(f"tdgl imported from {here}, expected {REPO}")
    return tdgl
