"""Online monitors attached to the flight recorder (one object per concern).

Every monitor has .V (violations: dicts with kind/mechanism/detail), .C (evaluation
counters) and .W (worst observed value / gate). Monitors never raise into the
solver; the first few violations of each kind are kept, the rest counted."""
import hashlib
import math

import numpy as np

from .ref import fv, geom, step as stepref, units


class Base:
    MAXV = 4

    def __init__(self):
        self.V = []
        self.C = {}
        self.W = {}
        self._nkind = {}

    def count(self, name, n=1):
        self.C[name] = self.C.get(name, 0) + n

    def worst(self, name, ratio):
        if ratio is not None and np.isfinite(ratio):
            self.W[name] = max(self.W.get(name, 0.0), float(ratio))

    def viol(self, kind, mechanism, detail):
        self._nkind[kind] = self._nkind.get(kind, 0) + 1
        if self._nkind[kind] <= self.MAXV:
            self.V.append({"kind": kind, "mechanism": mechanism, "detail": detail})
        else:
            self.count("suppressed_" + kind)


class MeshGeo:
    """Geometry of the solver's mesh; edges/lengths/directions recomputed from the
    site pairs, dual lengths and areas taken from the mesh (verified in C07)."""

    def __init__(self, mesh):
        self.sites = np.array(mesh.sites, dtype=float)
        self.n = len(self.sites)
        self.edges = np.array(mesh.edge_mesh.edges, dtype=np.int64)
        d = self.sites[self.edges[:, 1]] - self.sites[self.edges[:, 0]]
        self.dirs = d
        self.elen = np.hypot(d[:, 0], d[:, 1])
        self.unit = d / self.elen[:, None]
        self.s = np.array(mesh.edge_mesh.dual_edge_lengths, dtype=float)
        self.areas = np.array(mesh.areas, dtype=float)
        self.centers = self.sites[self.edges].mean(axis=1)
        self.bidx = np.array(mesh.edge_mesh.boundary_edge_indices, dtype=np.int64)
        self.m = len(self.edges)
        self.nedges_per_site = np.bincount(self.edges.ravel(), minlength=self.n)

    def outflow(self, J):
        out = np.zeros(self.n)
        np.add.at(out, self.edges[:, 0], self.s * J)
        np.add.at(out, self.edges[:, 1], -self.s * J)
        return out

    def abs_flow(self, J):
        out = np.zeros(self.n)
        np.add.at(out, self.edges[:, 0], self.s * np.abs(J))
        np.add.at(out, self.edges[:, 1], self.s * np.abs(J))
        return out

    def site_current(self, J):
        """Sheet current on sites: (1/2) mean over incident edges of J_k e_hat_k."""
        v = J[:, None] * self.unit
        out = np.zeros((self.n, 2))
        np.add.at(out, self.edges[:, 0], v)
        np.add.at(out, self.edges[:, 1], v)
        return out / self.nedges_per_site[:, None] / 2


def scales_for(solver):
    L = solver.device.layer
    return units.Scales(L.coherence_length, L.london_lambda, L.thickness, solver.device.length_units,
                        solver.options.field_units, solver.options.current_units)


# ----------------------------------------------------------------------------
class Sanitizer(Base):
    """NaN/Inf detector on every state array after every step; kernel buffer
    poisoning (uninitialised read detector); numpy global RNG untouched."""

    def on_update_end(self, ctx, res, exc):
        if res is None:
            return
        self.count("finite_checks")
        for name in ("psi", "mu", "supercurrent", "normal_current", "A_induced"):
            a = getattr(res, name)
            if not np.all(np.isfinite(a)):
                self.viol("nonfinite_state", "nonfinite_state", {"array": name, "step": ctx["step"], "stage": ctx["stage"]})
        if not (np.isfinite(res.dt) and res.dt > 0):
            self.viol("bad_dt", "bad_dt", {"dt": float(res.dt), "step": ctx["step"]})

    def on_kernel(self, ctx, args, left):
        self.count("kernel_buffer_checks")
        if left:
            self.viol("kernel_partial_write", "kernel_partial_write", {"nan_left": left})

    def on_induced_buffer(self, ctx, rows_left, rows):
        self.count("induced_buffer_checks")
        if rows_left:
            self.viol("kernel_partial_write", "kernel_partial_write", {"rows_never_written": rows_left, "rows": rows, "where": "solver's output buffer"})


# ----------------------------------------------------------------------------
class ChargeMonitor(Base):
    """C01: per-cell charge balance and terminal totals, every update return."""

    GATE = 1e-8

    def __init__(self, drive_spec):
        super().__init__()
        self.drive = drive_spec
        self.geo = None

    def on_solver(self, solver):
        from . import sim

        self.sim = sim
        self.solver = solver
        self.geo = g = MeshGeo(solver.device.mesh)
        self.sc = sc = scales_for(solver)
        self.terms = {}
        touched = np.zeros(g.n, dtype=int)
        # terminal boundary edges determined independently: boundary edges of the mesh in use whose
        # centre lies inside the terminal polygon (winding number), cross-checked with terminal_info()
        info = {ti.name: ti for ti in solver.device.terminal_info()}
        bcent = sc.xi_mag * g.centers[g.bidx]
        for term in solver.device.terminals:
            wn, dist = geom.winding_number(bcent, term.points)
            eidx = g.bidx[wn != 0]
            self.count("terminal_membership_checks")
            ti = info.get(term.name)
            theirs = None if ti is None else np.sort(g.bidx[np.asarray(ti.boundary_edge_indices, dtype=int)])
            ambiguous = bool(np.any(dist < 1e-9 * sc.xi_mag))
            if not ambiguous and (theirs is None or not np.array_equal(theirs, np.sort(eidx))):
                self.viol("terminal_membership_mismatch", "terminal_info_inconsistent_with_mesh",
                          {"terminal": term.name, "edges_inside_polygon": int(len(eidx)), "edges_in_terminal_info": None if theirs is None else int(len(theirs))})
            Lphys = float(g.elen[eidx].sum() * sc.xi_mag)
            coef = np.zeros(g.n)
            for k in eidx:
                i, j = g.edges[k]
                coef[i] += g.elen[k] / 2
                coef[j] += g.elen[k] / 2
            cells = np.where(coef > 0)[0]
            touched[cells] += 1
            self.terms[term.name] = dict(coef=coef * sc.J_scale / Lphys, cells=cells, L=Lphys, nedges=len(eidx))
        self.shared = touched > 1

    def expected(self, t):
        I = self.sim.currents_at(self.drive, t)
        names = list(self.terms)
        tot = {n: float(I.get(n, 0.0)) for n in names}
        exp = np.zeros(self.geo.n)
        for n in names:
            exp += self.terms[n]["coef"] * tot[n]
        return exp, tot

    def check_state(self, J, t, where, psi=None, mu=None):
        g = self.geo
        out = g.outflow(J)
        exp, tot = self.expected(t)
        scale = max(float(g.abs_flow(J).max()), float(np.abs(exp).max()), 1e-300)
        # rounding floor of the balance itself: an edge current is a difference of O(|psi|^2 / e) and O(|mu| / e) terms, so
        # a cell sum carries ~eps * sum_j s_ij / e_ij * (|psi|^2 + |mu|) whatever the net flow (matters once a drive is
        # switched off and the residual currents decay towards zero)
        floor = 0.0
        if psi is not None:
            # (the constant in mu is arbitrary, and a large one does add rounding noise to every potential difference; but only so much
            # is credited: a constant beyond 1e6 x (1 + spread of mu) is what an INCONSISTENT Neumann problem - net injected current
            # not zero - makes of the singular factorisation, and the noise it causes is the symptom, not an excuse)
            mu_mag = 0.0
            if mu is not None:
                mu_ = np.asarray(mu, dtype=float)
                mu_mag = min(float(np.max(np.abs(mu_))), 1e6 * (1.0 + float(np.ptp(mu_)))) if np.all(np.isfinite(mu_)) else float("inf")
            mag = float(np.max(np.abs(psi))) ** 2 + mu_mag
            floor = 32 * np.finfo(float).eps * float(g.abs_flow(mag / g.elen).max())
        scale = scale + floor / self.GATE
        res = np.abs(out - exp)
        self.count("cell_balance_checks", g.n)
        self.count("states_checked")
        if any(v != 0 for v in tot.values()):
            self.count("states_with_injection")
        r = float(res.max())
        self.worst("cell_residual_over_gate", r / (self.GATE * scale))
        if r > self.GATE * scale:
            i = int(res.argmax())
            onterm = [n for n, T in self.terms.items() if i in set(T["cells"].tolist())]
            isb = bool(i in set(g.edges[g.bidx].ravel().tolist()))
            self.viol("cell_charge_imbalance", "cell_charge_imbalance",
                      {"where": where, "cell": i, "outflow": float(out[i]), "expected": float(exp[i]), "scale": scale,
                       "terminal_cell_of": onterm, "boundary_cell": isb})
        # terminal totals in user units
        for n, T in self.terms.items():
            if self.shared[T["cells"]].any():
                continue
            I_meas = self.sc.current_from_dimensionless_flux(float(out[T["cells"]].sum()))
            I_req = tot[n]
            ref = max(max(abs(v) for v in tot.values()), self.sc.current_from_dimensionless_flux(scale), 1e-300)
            self.count("terminal_total_checks")
            self.worst("terminal_total_over_gate", abs(I_meas - I_req) / (self.GATE * ref))
            if abs(I_meas - I_req) > self.GATE * ref:
                self.viol("terminal_current_wrong", "terminal_current_wrong",
                          {"where": where, "terminal": n, "measured": I_meas, "requested": I_req, "units": self.solver.options.current_units})

    def on_update_end(self, ctx, res, exc):
        if res is None:
            return
        J = np.asarray(res.supercurrent) + np.asarray(res.normal_current)
        self.check_state(J, ctx["time"], {"stage": ctx["stage"], "step": ctx["step"], "update": ctx["index"]}, psi=np.asarray(res.psi), mu=np.asarray(res.mu))


# ----------------------------------------------------------------------------
class StepOracle(Base):
    """C02 in situ: every solve_for_psi_squared call against the long-double oracle."""

    def __init__(self, every=1):
        super().__init__()
        self.every = every
        self.k = 0
        self.last_ok = None

    def on_spsq(self, ctx, kw, res):
        self.k += 1
        self.last_answered = res is not None
        if res is not None:
            self.last_ok = (float(kw["dt"]), np.array(res[0], copy=True))
        if ctx is not None and "psi" in ctx["inputs"]:
            # z and w of this step are to be built from the state handed to update(): psi^n, |psi^n|^2, mu^n
            self.count("step_input_checks")
            pin, mun = np.asarray(ctx["inputs"]["psi"]), np.asarray(ctx["inputs"]["mu"])
            sq = np.abs(pin) ** 2
            bad = None
            if not np.array_equal(np.asarray(kw["psi"]), pin):
                bad = "psi"
            elif not np.array_equal(np.asarray(kw["mu"]), mun):
                bad = "mu"
            elif np.any(np.abs(np.asarray(kw["abs_sq_psi"]) - sq) > 1e-13 * sq + 1e-300):
                bad = "abs_sq_psi"
            sv = ctx["solver"]
            # gamma and u of the step are the layer's (gamma = 0 included: zero is a value, not "unset")
            lay = sv.device.layer
            if float(kw["gamma"]) != float(lay.gamma) or float(kw["u"]) != float(lay.u):
                self.viol("step_not_built_from_current_state", "step_built_from_foreign_state",
                          {"step": ctx["step"], "argument": "gamma/u", "passed": [float(kw["gamma"]), float(kw["u"])], "layer": [float(lay.gamma), float(lay.u)]})
            if bad is None and getattr(sv, "dynamic_epsilon", False):
                # a time-dependent epsilon is the user's function evaluated at the time of THIS step
                self.count("step_epsilon_checks")
                fn, t = sv.disorder_epsilon, ctx["time"]
                if getattr(sv, "vectorized_epsilon", False):
                    want = np.asarray(fn(sv.sites, t=t), dtype=float)
                else:
                    want = np.array([float(fn(r, t=t)) for r in sv.sites])
                if not np.array_equal(np.asarray(kw["epsilon"], dtype=float), want):
                    self.viol("step_not_built_from_current_state", "step_built_from_foreign_state",
                              {"step": ctx["step"], "argument": "epsilon", "time": t, "max_abs_diff": float(np.max(np.abs(np.asarray(kw["epsilon"]) - want)))})
            if bad:
                self.viol("step_not_built_from_current_state", "step_built_from_foreign_state",
                          {"step": ctx["step"], "argument": bad, "max_abs_diff": float(np.max(np.abs(np.asarray(kw[bad]) - {"psi": pin, "mu": mun, "abs_sq_psi": sq}[bad])))})
        if self.k % self.every and res is not None:
            return
        check_spsq(self, kw, res, where={"step": None if ctx is None else ctx["step"]})

    def on_update_begin(self, ctx):
        self.last_ok = None

    def on_update_end(self, ctx, res, exc):
        if res is None and isinstance(exc, RuntimeError) and "creening" not in str(exc) and "converge" in str(exc) and ctx["spsq_calls"]:
            # the update was refused: then the last attempt must have been refused (a solution that was found is never thrown away)
            self.count("refused_update_checks")
            if getattr(self, "last_answered", False):
                self.viol("update_refused_although_solved", "update_refused_although_solution_found",
                          {"step": ctx["step"], "attempt_dts": ctx["attempt_dts"][-4:], "refusals": ctx["refusals"], "error": str(exc)[:120]})
        # the step reported by update (dt, psi) must be the one that was answered by the accepted solve
        if res is None or self.last_ok is None:
            return
        self.count("reported_step_checks")
        if ctx["refusals"]:
            self.count("retried_steps_checked")
        dt_ok, psi_ok = self.last_ok
        if float(res.dt) != dt_ok:
            self.viol("reported_dt_not_the_solved_dt", "answered_step_not_solution_for_reported_dt",
                      {"step": ctx["step"], "reported_dt": float(res.dt), "dt_of_accepted_solve": dt_ok, "refusals": ctx["refusals"]})
        fixed = getattr(ctx["solver"], "fixed_psi_sites", None)
        a, b = np.asarray(res.psi), psi_ok
        if fixed is not None:
            mask = np.ones(len(a), dtype=bool)
            mask[np.asarray(fixed)] = False
            a, b = a[mask], b[mask]
        if not np.array_equal(a, b):
            self.viol("reported_psi_not_the_solved_psi", "answered_step_not_solution_for_reported_dt", {"step": ctx["step"], "max_abs_diff": float(np.max(np.abs(a - b)))})


def fp_events(kw, lap):
    """Which IEEE exceptions does the documented formula raise when evaluated in double
    precision on these inputs? (deterministic witness classifier; the property excludes
    overflow, so over/invalid/divide make the input out of scope, underflow does not)"""
    psi = np.asarray(kw["psi"]); a2 = np.asarray(kw["abs_sq_psi"]); mu = np.asarray(kw["mu"])
    g, u, dt, eps = kw["gamma"], kw["u"], kw["dt"], np.asarray(kw["epsilon"])

    def formula():
        U = np.exp(-1j * mu * dt)
        z = U * g**2 / 2 * psi
        w = z * a2 + U * (psi + (dt / u) * np.sqrt(1 + g**2 * a2) * ((eps - a2) * psi + lap))
        c = w.real * z.real + w.imag * z.imag
        return (2 * c + 1) ** 2 - 4 * np.absolute(z) ** 2 * np.absolute(w) ** 2

    ev = set()
    for name in ("over", "invalid", "divide", "under"):
        kwargs = dict(over="ignore", invalid="ignore", divide="ignore", under="ignore")
        kwargs[name] = "raise"
        try:
            with np.errstate(**kwargs):
                formula()
        except FloatingPointError:
            ev.add(name)
    return ev


def check_spsq(mon, kw, res, where=None, lap=None):
    psi = np.asarray(kw["psi"])
    if lap is None:
        lap = kw["psi_laplacian"] @ psi
    ev = stepref.evaluate(psi, kw["abs_sq_psi"], kw["mu"], kw["epsilon"], kw["gamma"], kw["u"], kw["dt"], lap)
    s_ref, psi_ref, ok = stepref.solution(ev)
    margin = 1e-9 * ev["disc_mag"] + 1e-300
    disc = ev["disc"]
    b = ev["b"]
    # sites where the oracle is sure that no admissible solution exists / exists
    surely_bad = disc < -margin
    # disc >= 0 but 2c+1 < 0: both roots of the quadratic are negative -> no admissible |psi'|^2
    neg_branch = (disc > margin) & (b < -1e-9 * (1 + np.abs(2 * ev["c"]))) & (ev["w2"] > 1e-300)
    surely_ok = (disc > margin) & ((b > 0) | (ev["w2"] == 0))
    mon.count("spsq_calls_checked")
    mon.count("spsq_sites_checked", len(psi))
    finite_inputs = np.all(np.isfinite(ev["w"].real)) and np.all(np.isfinite(ev["w"].imag)) and np.all(np.isfinite(disc))
    if not finite_inputs:
        mon.count("spsq_overflow_skipped")
        return
    if res is None:
        mon.count("spsq_refusals")
        if np.all(surely_ok):
            fpe = fp_events(kw, lap)
            if fpe & {"over", "invalid", "divide"}:
                mon.count("spsq_overflow_skipped")
                return
            mech = "refused_on_underflow" if "under" in fpe else "refused_although_solvable"
            mon.viol("refused_although_solvable", mech,
                     {"where": where, "min_disc": float(disc.min()), "min_b": float(b.min()), "dt": float(kw["dt"]), "gamma": float(kw["gamma"]),
                      "min_abs_psi": float(np.min(np.abs(psi))) if len(psi) else 0.0})
        return
    mon.count("spsq_answers")
    new_psi, new_sq = res
    new_psi = np.asarray(new_psi)
    new_sq = np.asarray(new_sq)
    if np.any(surely_bad):
        i = int(np.argmax(surely_bad))
        mon.viol("answered_without_solution", "answered_without_solution",
                 {"where": where, "site": i, "disc": float(disc[i]), "returned_sq": complex(new_sq[i]) if np.iscomplexobj(new_sq) else float(new_sq[i])})
        return
    if np.any(neg_branch):
        i = int(np.argmax(neg_branch))
        mon.viol("answered_negative_root", "answered_when_only_negative_roots",
                 {"where": where, "site": i, "two_c_plus_1": float(b[i]), "disc": float(disc[i]), "returned_sq": float(np.real(new_sq[i])), "dt": float(kw["dt"])})
        return
    if np.iscomplexobj(new_sq) or not np.all(np.isfinite(new_sq)) or np.any(new_sq < 0):
        bad = ~np.isfinite(new_sq) | (np.real(new_sq) < 0) if not np.iscomplexobj(new_sq) else np.ones(len(new_sq), bool)
        i = int(np.argmax(bad))
        mon.viol("sq_not_real_nonneg", "sq_not_real_nonneg", {"where": where, "site": i, "value": repr(new_sq[i]), "dtype": str(new_sq.dtype)})
        return
    if not np.all(np.isfinite(new_psi)):
        mon.viol("psi_nonfinite", "psi_nonfinite", {"where": where})
        return
    LD = np.longdouble
    sq = new_sq.astype(LD)
    z2, w2 = ev["z2"], ev["w2"]
    # backward error of the quadratic at the returned s
    resid = np.abs(z2 * sq * sq - b * sq + w2)
    mag = z2 * sq * sq + np.abs(b) * sq + w2 + 1e-280
    r1 = float(np.max(resid / mag))
    mon.worst("quadratic_backward_error_over_gate", r1 / 1e-10)
    if r1 > 1e-10:
        i = int(np.argmax(resid / mag))
        mon.viol("quadratic_not_satisfied", "update_equation_not_satisfied", {"where": where, "site": i, "rel_residual": r1, "s": float(sq[i]), "s_ref": float(s_ref[i])})
    # psi' = w - z s (against the long-double w, z) and psi' + z |psi'|^2 = w
    pn = new_psi.astype(np.clongdouble)
    e2 = np.abs(pn + ev["z"] * sq - ev["w"])
    m2 = np.abs(pn) + np.abs(ev["z"]) * sq + np.abs(ev["w"]) + 1e-280
    # the temporal link variable exp(-i mu dt) is only determined to |mu dt| * eps in double precision
    m2 = m2 * (1 + 1e-5 * np.abs(np.asarray(kw["mu"], dtype=LD) * LD(kw["dt"])))
    r2 = float(np.max(e2 / m2))
    mon.worst("psi_equation_error_over_gate", r2 / 1e-10)
    if r2 > 1e-10:
        i = int(np.argmax(e2 / m2))
        mon.viol("psi_equation_not_satisfied", "update_equation_not_satisfied", {"where": where, "site": i, "rel_residual": r2})
    # reported |psi'|^2 equals squared modulus of reported psi'
    ap = (pn.real**2 + pn.imag**2)
    e3 = np.abs(ap - sq)
    # conditioning: an error ds in the root changes |psi'|^2 by ~2|psi'||z| ds, and the forward
    # error of a backward-stable root is (backward error)/|P'(s)| with |P'(s)| = sqrt(disc)
    with np.errstate(all="ignore"):
        ds_allowed = 1e-3 * mag / np.sqrt(np.maximum(disc, margin))
    m3 = ap + sq + 2 * np.abs(pn) * np.abs(ev["z"]) * ds_allowed + 1e-280
    r3 = float(np.max(e3 / m3))
    mon.worst("modulus_consistency_over_gate", r3 / 1e-9)
    if r3 > 1e-9:
        i = int(np.argmax(e3 / m3))
        mon.viol("sq_ne_modulus", "reported_sq_ne_modulus", {"where": where, "site": i, "abs_psi_sq": float(ap[i]), "reported": float(sq[i])})
    # branch: the root that stays finite as |z| -> 0  (s <= s_other; equivalently s*|z|^2 <= (2c+1)/2 )
    with np.errstate(all="ignore"):
        other = np.where(z2 > 0, (b + np.sqrt(np.maximum(disc, 0))) / (2 * z2), np.inf)
    wrong = (sq > s_ref * (1 + 1e-6) + 1e-300) & (np.abs(sq - other) <= 1e-6 * np.abs(other)) & (disc > margin)
    mon.count("branch_checks", len(sq))
    if np.any(wrong):
        i = int(np.argmax(wrong))
        mon.viol("other_branch", "other_branch_root", {"where": where, "site": i, "s": float(sq[i]), "physical": float(s_ref[i]), "other": float(other[i])})
    sure = surely_ok
    if np.any(sure):
        rel = np.abs(sq[sure] - s_ref[sure]) / (np.abs(s_ref[sure]) + 1e-300)
        # forward error is only meaningful where the root is well conditioned
        cond_ok = disc[sure] > 1e-6 * ev["disc_mag"][sure]
        if np.any(cond_ok):
            r4 = float(np.max(rel[cond_ok]))
            mon.worst("forward_error_wellconditioned_over_gate", r4 / 1e-8)
            if r4 > 1e-8:
                mon.viol("root_value_wrong", "update_equation_not_satisfied", {"where": where, "rel_err": r4})


# ----------------------------------------------------------------------------
class PinMonitor(Base):
    """C06: psi on terminal sites equals terminal_psi at every step; pinned rows of the
    Laplacian are exactly the terminal sites; all other sites obey the free update."""

    def on_solver(self, solver):
        self.solver = solver
        self.geo = MeshGeo(solver.device.mesh)
        ti = solver.device.terminal_info()
        theirs = np.unique(np.concatenate([np.asarray(t.site_indices, dtype=int) for t in ti])) if ti else np.array([], dtype=int)
        # terminal sites determined independently: boundary sites of the mesh in use (sites of edges that belong
        # to exactly one triangle) that lie inside a terminal polygon (winding number)
        g = self.geo
        bsites = np.unique(g.edges[g.bidx].ravel())
        xi = solver.device.layer.coherence_length
        mine, ambiguous = [], False
        for term in solver.device.terminals:
            wn, dist = geom.winding_number(xi * g.sites[bsites], term.points)
            mine.append(bsites[wn != 0])
            ambiguous = ambiguous or bool(np.any(dist < 1e-9 * xi))
        mine = np.unique(np.concatenate(mine)) if mine else np.array([], dtype=int)
        self.count("terminal_site_membership_checks")
        if not ambiguous and not np.array_equal(mine, theirs):
            self.viol("terminal_sites_inconsistent_with_mesh", "terminal_info_inconsistent_with_mesh",
                      {"sites_inside_polygons": int(len(mine)), "sites_in_terminal_info": int(len(theirs)),
                       "only_in_terminal_info": np.setdiff1d(theirs, mine)[:5].tolist(), "only_inside_polygons": np.setdiff1d(mine, theirs)[:5].tolist()})
        self.tsites = mine if not ambiguous else theirs
        self.tpsi = solver.options.terminal_psi
        self.free = np.ones(self.geo.n, dtype=bool)
        if self.tpsi is not None:
            self.free[self.tsites] = False
        self.last_link = None
        self.last_kw = None
        # a seed solution is an input: its values on the terminals are the user's, not the solver's
        self.seeded = solver.seed_solution is not None
        if not self.seeded:
            self.check_value(solver.psi_init, {"where": "initial_state"})
        self.check_rows({"where": "after_construction"})

    def check_value(self, psi, where):
        if self.tpsi is None or len(self.tsites) == 0:
            return
        self.count("pin_value_checks")
        got = np.asarray(psi)[self.tsites]
        bad = got != complex(self.tpsi)
        if np.any(bad):
            i = int(np.argmax(np.abs(got - complex(self.tpsi))))
            dev = float(np.abs(got - complex(self.tpsi)).max())
            mech = "nonzero_terminal_psi_drifts" if (complex(self.tpsi) != 0 and dev < 0.9 * 10) else "terminal_psi_not_held"
            if complex(self.tpsi) == 0:
                mech = "terminal_psi_not_held"
            self.viol("terminal_psi_not_held", mech, {**where, "site": int(self.tsites[i]), "value": complex(got[i]), "configured": complex(self.tpsi), "max_dev": dev})

    def check_rows(self, where):
        import scipy.sparse as sp

        L = sp.csr_matrix(self.solver.operators.psi_laplacian)
        self.count("pinned_row_checks")
        nnz_row = np.diff(L.indptr)
        diag = L.diagonal()
        ident = (nnz_row == 1) & (diag == 1.0)
        # a genuine free row has > 1 entries (every site has neighbours)
        want = np.zeros(self.geo.n, dtype=bool)
        if self.tpsi is not None:
            want[self.tsites] = True
        if not np.array_equal(ident, want):
            extra = np.where(ident & ~want)[0][:5].tolist()
            missing = np.where(~ident & want)[0][:5].tolist()
            self.viol("pinned_rows_wrong", "pinned_rows_wrong", {**where, "pinned_but_should_be_free": extra, "free_but_should_be_pinned": missing})

    def on_link(self, ops, A, was_build):
        self.last_link = A

    def on_spsq(self, ctx, kw, res):
        if res is not None:
            self.last_kw = {k: (np.array(v, copy=True) if isinstance(v, np.ndarray) else v) for k, v in kw.items() if k != "psi_laplacian"}

    def on_update_end(self, ctx, res, exc):
        if res is None:
            return
        where = {"stage": ctx["stage"], "step": ctx["step"]}
        self.check_value(res.psi, where)
        self.check_rows(where)
        # free evolution of every non-pinned site, with an independently rebuilt Laplacian
        if self.last_kw is None or self.last_link is None:
            return
        g = self.geo
        kw = self.last_kw
        lap = fv.laplacian_apply(kw["psi"], g.edges, g.elen, g.s, g.areas, g.dirs, self.last_link)
        ev = stepref.evaluate(kw["psi"], kw["abs_sq_psi"], kw["mu"], kw["epsilon"], kw["gamma"], kw["u"], kw["dt"], lap)
        s_ref, psi_ref, ok = stepref.solution(ev)
        f = self.free & ok & (ev["disc"] > 1e-6 * ev["disc_mag"])
        self.count("free_site_checks", int(f.sum()))
        if f.any():
            err = np.abs(np.asarray(res.psi)[f] - psi_ref[f].astype(complex))
            mag = np.abs(psi_ref[f]).astype(float) + np.abs(ev["w"][f]).astype(float) + 1e-280
            # exp(-i mu dt) is only determined to |mu dt| * eps in double precision (diverging runs reach |mu dt| >> 1)
            mag = mag * (1 + 1e-5 * np.abs(np.asarray(kw["mu"], dtype=float)[f] * float(kw["dt"])))
            r = float(np.max(err / mag))
            self.worst("free_update_error_over_gate", r / 1e-8)
            if r > 1e-8:
                idx = np.where(f)[0][int(np.argmax(err / mag))]
                self.viol("site_not_following_free_update", "free_site_not_free",
                          {**where, "site": int(idx), "is_terminal_site": bool(idx in set(self.tsites.tolist())), "rel_err": r,
                           "got": complex(np.asarray(res.psi)[idx]), "expected": complex(psi_ref[idx])})

    def on_save_begin(self, handler, state, data, running):
        if "psi" in data and not (self.seeded and int(state["step"]) == 0):
            self.check_value(data["psi"], {"where": "saved_frame", "step": int(state["step"])})


# ----------------------------------------------------------------------------
class OperatorFreshness(Base):
    """C10 in situ: link variables in the operators in use vs the potential that the
    harness evaluates itself at the current time (+ current induced iterate)."""

    def on_solver(self, solver):
        import scipy.sparse as sp

        self.sp = sp
        self.solver = solver
        self.geo = g = MeshGeo(solver.device.mesh)
        self.sc = scales_for(solver)
        self.A_ind = None
        self.xi = self.sc.xi_mag
        self.z0 = solver.device.layer.z0
        self.moved_steps = 0
        self.A0 = None
        self.wl = g.s / g.elen

    def expected_applied(self, t):
        avp = self.solver.applied_vector_potential
        g = self.geo
        x = self.xi * g.centers[:, 0]
        y = self.xi * g.centers[:, 1]
        z = self.z0 * np.ones(g.m)
        kw = dict(t=t) if self.solver.dynamic_vector_potential else {}
        A = np.asarray(avp(x, y, z, **kw))[:, :2]
        return self.sc.A_scale * A

    def on_update_begin(self, ctx):
        self.A_ind = np.array(ctx["inputs"]["induced_vector_potential"], dtype=float)

    def on_induced(self, ctx, J, A_prev, out):
        self.A_ind = np.array(out[0], dtype=float)

    def on_spsq(self, ctx, kw, res):
        if ctx is None:
            return
        g = self.geo
        A = self.expected_applied(ctx["time"])
        if self.A0 is None:
            self.A0 = A
        if self.solver.options.include_screening and self.A_ind is not None:
            Atot = A + self.A_ind
        else:
            Atot = A
        U = np.exp(-1j * np.sum(Atot * g.dirs, axis=1))
        # the operators must hold the potential in force exactly (they are refreshed whenever the applied
        # potential changes at all, and at every screening iteration): only rounding is admitted
        tol = np.full(g.m, 1e-10)
        L = self.sp.csr_matrix(kw["psi_laplacian"])
        e0, e1 = g.edges[:, 0], g.edges[:, 1]
        fixed = np.zeros(g.n, dtype=bool)
        if self.solver.options.terminal_psi is not None:
            for t in self.solver.terminal_info:
                fixed[np.asarray(t.site_indices, dtype=int)] = True
        fwd = ~fixed[e0]
        bwd = ~fixed[e1]
        Lf = np.asarray(L[e0[fwd], e1[fwd]]).ravel() * g.areas[e0[fwd]] / self.wl[fwd]
        Lb = np.asarray(L[e1[bwd], e0[bwd]]).ravel() * g.areas[e1[bwd]] / self.wl[bwd]
        Gm = self.sp.csr_matrix(self.solver.operators.psi_gradient)
        Gu = np.asarray(Gm[np.arange(g.m), e1]).ravel() * g.elen
        self.count("operator_in_use_checks")
        moved = bool(np.abs(A - self.A0).max() > 1e-6 * (np.abs(self.A0).max() + 1e-12)) or self.solver.options.include_screening
        if moved:
            self.count("checks_after_potential_moved")
        for name, got, want, t in (("laplacian_forward", Lf, U[fwd], tol[fwd]), ("laplacian_backward", Lb, np.conj(U[bwd]), tol[bwd]), ("gradient", Gu, U, tol)):
            if len(got) == 0:
                continue
            err = np.abs(got - want)
            r = float(np.max(err / t))
            self.worst("link_error_over_tolerance", r)
            if r > 1:
                k = int(np.argmax(err / t))
                self.viol("stale_link_variable", "stale_link_variables_slow_ramp" if (self.solver.dynamic_vector_potential and not self.solver.options.include_screening and self._slow(A)) else "stale_or_partial_refresh",
                          {"step": ctx["step"], "time": ctx["time"], "operator": name, "edge_pos": k, "got": complex(got[k]), "want": complex(want[k]),
                           "phase_error": float(err[k]), "tolerance": float(t[k])})
                break
        self.prev_A = A

    def _slow(self, A):
        """True when the applied potential changed by less than the allclose band since
        the previous step (the mechanism of the known slow-ramp staleness)."""
        p = getattr(self, "prev_A", None)
        if p is None:
            return False
        return bool(np.all(np.abs(A - p) <= 1e-8 + 1e-5 * np.abs(p)))


# ----------------------------------------------------------------------------
class AdaptiveMonitor(Base):
    """C12: executable specification of the time-step rule, per update."""

    def on_solver(self, solver):
        self.solver = solver
        self.o = solver.options
        self.d = []
        self.prev_tentative = float(self.o.dt_init)
        self.exhaustions = 0
        # every run starts with the configured initial step, whatever it was started from (seed solution included)
        self.count("initial_proposal_checks")
        if float(solver.tentative_dt) != float(self.o.dt_init):
            self.viol("first_proposal_not_dt_init", "first_proposal_not_dt_init", {"tentative_dt": float(solver.tentative_dt), "dt_init": float(self.o.dt_init), "seeded": solver.seed_solution is not None})

    def on_update_begin(self, ctx):
        ctx["calls"] = []

    def on_spsq(self, ctx, kw, res):
        if ctx is not None:
            ctx["calls"].append((float(kw["dt"]), res is None))

    def on_update_end(self, ctx, res, exc):
        o = self.o
        calls = ctx.get("calls", [])
        where = {"stage": ctx["stage"], "step": ctx["step"]}
        self.count("updates_checked")
        dt_max = o.dt_max if o.adaptive else o.dt_init
        # attempts form d, d*m, ... one factor per refusal; new screening iteration keeps dt
        if calls:
            self.count("attempt_sequence_checks")
            if calls[0][0] != ctx["tentative_dt"]:
                self.viol("first_attempt_not_proposal", "first_attempt_not_proposal", {**where, "first": calls[0][0], "proposal": ctx["tentative_dt"]})
            run = 0
            for (d0, r0), (d1, r1) in zip(calls, calls[1:]):
                if r0:
                    run += 1
                    self.count("retries_seen")
                    want = d0 * o.adaptive_time_step_multiplier
                    if not o.adaptive:
                        self.viol("retry_without_adaptive", "retry_without_adaptive", {**where})
                    if d1 != want:
                        self.viol("retry_factor_wrong", "retry_factor_wrong", {**where, "prev": d0, "next": d1, "expected": want})
                    if run > o.max_solve_retries + 1:
                        self.viol("too_many_retries", "retry_limit_not_enforced", {**where, "consecutive_refusals": run, "max_solve_retries": o.max_solve_retries})
                else:
                    run = 0
                    if d1 != d0:
                        self.viol("dt_changed_without_refusal", "dt_changed_without_refusal", {**where, "prev": d0, "next": d1})
        if res is None:
            if calls and calls[-1][1] and isinstance(exc, RuntimeError):
                self.exhaustions += 1
                self.count("exhaustions_seen")
                tail = 0
                for d, r in reversed(calls):
                    if r:
                        tail += 1
                    else:
                        break
                if o.adaptive and tail < o.max_solve_retries + 1:
                    self.viol("gave_up_early", "gave_up_before_retry_budget", {**where, "consecutive_refusals": tail, "max_solve_retries": o.max_solve_retries})
            elif calls and not calls[-1][1] and isinstance(exc, RuntimeError) and "creening" not in str(exc) and "converge" in str(exc):
                # the last attempt WAS answered: the retries were not exhausted, there was nothing to give up on
                self.count("exhaustions_seen")
                self.viol("gave_up_although_answered", "gave_up_although_last_attempt_answered",
                          {**where, "attempts": [c[0] for c in calls[-4:]], "refused": [c[1] for c in calls[-4:]], "max_solve_retries": o.max_solve_retries, "error": str(exc)[:120]})
            return
        if calls and calls[-1][1]:
            self.viol("continued_after_refusal", "continued_after_refusal", {**where})
        dt = float(res.dt)
        if calls and dt != calls[-1][0]:
            self.viol("returned_dt_not_used_dt", "returned_dt_not_used_dt", {**where, "returned": dt, "last_attempt": calls[-1][0]})
        if not (dt > 0):
            self.viol("dt_not_positive", "dt_not_positive", {**where, "dt": dt})
        if dt > dt_max * (1 + 1e-15):
            self.viol("dt_above_max", "dt_above_max", {**where, "dt": dt, "dt_max": dt_max})
        if not o.adaptive and dt != o.dt_init:
            self.viol("fixed_step_changed", "fixed_step_changed", {**where, "dt": dt, "dt_init": o.dt_init})
        # proposal for the next step
        after = ctx["tentative_dt_after"]
        if not o.adaptive:
            self.count("proposal_checks")
            if after != o.dt_init:
                self.viol("proposal_changed_without_adaptive", "fixed_step_changed", {**where, "proposal": after})
            return
        psi_in = np.asarray(ctx["inputs"]["psi"])
        psi_out = np.asarray(res.psi)
        self.d.append(float(np.max(np.abs(np.abs(psi_out) ** 2 - np.abs(psi_in) ** 2))))
        w = int(o.adaptive_window)
        before = ctx["tentative_dt"]
        self.count("proposal_checks")
        if ctx["step"] > w:
            delta = float(np.mean(self.d[-w:]))
            self.count("proposal_rule_checks")
            if delta < 3e-10:
                # the implementation floors delta at 1e-10; near the floor accept both
                cands = [min(0.5 * (dt + o.dt_init / max(delta, 1e-300)), o.dt_max), min(0.5 * (dt + o.dt_init / 1e-10), o.dt_max)]
            else:
                cands = [min(0.5 * (dt + o.dt_init / delta), o.dt_max)]
            if not any(abs(after - c) <= 1e-8 * c for c in cands):
                self.viol("proposal_rule_violated", "proposal_rule_violated",
                          {**where, "proposal": after, "expected": cands[0], "dt": dt, "delta": delta, "window": w, "dt_init": o.dt_init, "dt_max": o.dt_max})
            if after != before:
                self.count("proposal_changes")
            if after >= o.dt_max:
                self.count("proposal_at_dt_max")
        else:
            if after != before:
                self.viol("proposal_changed_in_warmup", "proposal_changed_in_warmup", {**where, "before": before, "after": after, "window": w})


# ----------------------------------------------------------------------------
class ScreeningMonitor(Base):
    """C13: self-consistency of the induced vector potential, every iteration."""

    STORED_FACTOR = 30.0

    def __init__(self, every=1):
        super().__init__()
        self.every = every
        self.k = 0

    def on_solver(self, solver):
        self.solver = solver
        self.o = solver.options
        self.geo = g = MeshGeo(solver.device.mesh)
        self.sc = sc = scales_for(solver)
        xi = sc.xi_mag
        sites = xi * g.sites
        cen = xi * g.centers
        r = np.hypot(cen[:, None, 0] - sites[None, :, 0], cen[:, None, 1] - sites[None, :, 1])
        self.kern = sc.screening_prefactor * (g.areas * xi**2)[None, :] / r  # (m, n)
        self.last = None

    def direct(self, J_edge):
        return self.kern @ self.geo.site_current(np.asarray(J_edge, dtype=float))

    def on_induced(self, ctx, J, A_prev, out):
        self.k += 1
        A_new, err = out
        A_new = np.asarray(A_new)
        Abar = self.direct(J)
        dA = Abar - np.asarray(A_prev)
        # potentials below 1e-12 (dimensionless) are rounding noise: their relative change is not judged
        den = np.maximum(np.linalg.norm(A_new, axis=1), 1e-12)
        mine = float(np.max(np.linalg.norm(dA, axis=1) / den))
        self.last = dict(mine=mine, reported=float(err), Abar=Abar)
        self.count("iterations_checked")
        if np.isfinite(err) and np.isfinite(mine):
            ref = max(mine, float(err), 1e-300)
            # kernel vs direct sum, in situ
            knl = np.asarray(self.solver.new_A_induced)
            scale = float(np.abs(Abar).max()) + 1e-300
            kd = float(np.abs(knl - Abar).max()) / scale
            self.worst("kernel_vs_direct_over_gate", kd / 1e-8)
            if kd > 1e-8:
                self.viol("kernel_ne_direct_sum", "kernel_ne_direct_sum", {"step": ctx["step"] if ctx else None, "rel_diff": kd})
            elif abs(mine - err) > 1e-6 * ref + 1e-12:
                self.viol("reported_error_wrong", "screening_error_misreported", {"step": ctx["step"] if ctx else None, "reported": float(err), "recomputed": mine})

    def on_update_end(self, ctx, res, exc):
        o = self.o
        if res is None:
            if isinstance(exc, RuntimeError) and "Screening" in str(exc):
                self.count("nonconvergence_errors")
            return
        if not o.include_screening:
            self.count("zero_induced_checks")
            if np.any(np.asarray(res.A_induced) != 0):
                self.viol("induced_nonzero_without_screening", "induced_nonzero_without_screening", {"step": ctx["step"]})
            return
        if self.last is None:
            self.viol("no_iteration", "step_accepted_without_screening_iteration", {"step": ctx["step"]})
            return
        self.count("accepted_steps_checked")
        tol = o.screening_tolerance
        self.worst("final_mismatch_over_tolerance", self.last["mine"] / tol)
        if not (self.last["mine"] < tol * (1 + 1e-6)):
            self.viol("accepted_unconverged", "accepted_unconverged_step",
                      {"step": ctx["step"], "mismatch": self.last["mine"], "reported": self.last["reported"], "tolerance": tol, "iterations": ctx["screen_iters"]})
        if ctx["screen_iters"] > o.max_iterations_per_step + 2:
            self.viol("iteration_limit_ignored", "iteration_limit_ignored", {"step": ctx["step"], "iterations": ctx["screen_iters"], "limit": o.max_iterations_per_step})
        # stored potential vs sum from stored currents
        Abar = self.direct(np.asarray(res.supercurrent) + np.asarray(res.normal_current))
        A = np.asarray(res.A_induced)
        nA = np.linalg.norm(A, axis=1)
        floor = 1e-3 * float(nA.max()) + 1e-300
        rel = np.linalg.norm(Abar - A, axis=1) / np.maximum(nA, floor)
        r = float(rel.max())
        self.worst("stored_mismatch_over_tolerance", r / tol)
        if r > self.STORED_FACTOR * tol:
            self.viol("stored_potential_inconsistent", "stored_potential_inconsistent", {"step": ctx["step"], "rel_mismatch": r, "tolerance": tol})
        self.last = None

    def on_update_begin(self, ctx):
        self.last = None


# ----------------------------------------------------------------------------
class StationaryMonitor(Base):
    """C17: psi = 1, mu = 0 is exactly stationary."""

    def __init__(self, dt_star):
        super().__init__()
        self.dt_star = dt_star
        self.first_dev = None
        self.clean_stable_steps = 0
        self.max_dev = 0.0
        self.reached_dt_max = False
        self.dts = []

    def on_solver(self, solver):
        self.o = solver.options

    def on_update_end(self, ctx, res, exc):
        if res is None:
            return
        self.count("steps_checked")
        psi = np.asarray(res.psi)
        dev = float(np.max(np.abs(psi - 1.0)))
        self.max_dev = max(self.max_dev, dev)
        other = {
            "mu": float(np.max(np.abs(res.mu))),
            "supercurrent": float(np.max(np.abs(res.supercurrent))),
            "normal_current": float(np.max(np.abs(res.normal_current))),
            "A_induced": float(np.max(np.abs(res.A_induced))),
            "imag_psi": float(np.max(np.abs(psi.imag))),
        }
        self.dts.append(float(res.dt))
        if ctx.get("stage") != "Thermalizing":
            self.recorded_dts = getattr(self, "recorded_dts", []) + [float(res.dt)]  # (steps of the unrecorded first stage are not reported: C05)
        stable = res.dt <= 0.9 * self.dt_star
        bad = dev > 1e-12 or any(v != 0 for v in other.values())
        if bad and self.first_dev is None:
            self.first_dev = {"step": ctx["step"], "stage": ctx["stage"], "dt": float(res.dt), "stable_dt": bool(stable), "dev_psi": dev, **other,
                              "dt_star": self.dt_star}
        if not bad and stable:
            self.clean_stable_steps += 1


# ----------------------------------------------------------------------------
def h(a):
    a = np.ascontiguousarray(a)
    return hashlib.sha256(a.tobytes() + str(a.dtype).encode() + str(a.shape).encode()).hexdigest()[:20]


class TraceMonitor(Base):
    """Records the trace that the C05 / C11 / C15 reference models consume."""

    NAMES = ("psi", "mu", "supercurrent", "normal_current", "induced_vector_potential", "applied_vector_potential", "epsilon")

    def __init__(self, keep_arrays=False):
        super().__init__()
        self.stages = []  # dict(name, save, updates[], saves[], ended, ok, exc)
        self.keep = keep_arrays
        self.handler_paths = []
        self.tempdirs = []
        self.handler_closed = 0
        self.solver = None
        self.snapshot = None

    def on_solver(self, solver):
        self.solver = solver
        self.probe = solver.probe_points
        # the probe sites, re-derived by the harness: the mesh site closest to each probe point, in the order the user listed them
        dev_ = getattr(solver, "device", None)
        pp_ = getattr(dev_, "probe_points", None)
        if self.probe is not None and pp_ is not None:
            pts_ = np.asarray(dev_.points, dtype=float)
            self.probe = np.array([int(np.argmin(np.sum((pts_ - np.asarray(q_, dtype=float)[:2]) ** 2, axis=1))) for q_ in np.atleast_2d(np.asarray(pp_, dtype=float))], dtype=np.int64)

    def on_tempdir(self, path):
        self.tempdirs.append(path)

    def on_handler_enter(self, handler):
        self.handler_paths.append((handler.output_path, handler.tmp_path))

    def on_handler_close(self, handler):
        self.handler_closed += 1

    def on_handler_closing(self, handler):
        # output_file=None: the file lives in a TemporaryDirectory that is removed on close, so
        # read the frames from the still-open file now (what Solution() itself loaded from)
        if handler.tempdir is not None and handler.output_file is not None:
            from . import runcheck

            try:
                handler.output_file.flush()
                self.snapshot = runcheck.read_frames(handler.output_file)
            except Exception as exc:  # pragma: no cover
                self.snapshot_error = repr(exc)

    def on_stage_begin(self, name, save):
        self.stages.append(dict(name=name, save=save, updates=[], saves=[], ended=False, ok=None, exc=None, init=None))

    def on_stage_end(self, name, ok, exc):
        st = self.stages[-1]
        st["ended"] = True
        st["ok"] = ok
        st["exc"] = repr(exc) if exc is not None else None

    def on_update_begin(self, ctx):
        st = self.stages[-1]
        if st["init"] is None:
            st["init"] = {k: h(v) for k, v in ctx["inputs"].items() if v is not None}

    def on_update_end(self, ctx, res, exc):
        st = self.stages[-1]
        if res is None:
            st["updates"].append(dict(step=ctx["step"], failed=True, exc=repr(exc)))
            return
        names = ["psi", "mu", "supercurrent", "normal_current", "induced_vector_potential"]
        vals = [res.psi, res.mu, res.supercurrent, res.normal_current, res.A_induced]
        if res.A_applied is not None:
            names.append("applied_vector_potential"); vals.append(res.A_applied)
        if res.epsilon is not None:
            names.append("epsilon"); vals.append(res.epsilon)
        rec = dict(step=ctx["step"], time=ctx["time"], dt=float(res.dt), dt_used=float(ctx.get("last_ok_dt", res.dt)), hashes={n: h(v) for n, v in zip(names, vals)},
                   screen_iters=ctx["screen_iters"], refusals=ctx["refusals"], failed=False)
        if self.probe is not None:
            rec["probe_mu"] = np.asarray(res.mu)[self.probe].tolist()
            rec["probe_theta"] = np.angle(np.asarray(res.psi)[self.probe]).tolist()
        if self.keep:
            rec["arrays"] = {n: np.array(v, copy=True) for n, v in zip(names, vals)}
        st["updates"].append(rec)

    def on_save_begin(self, handler, state, data, running):
        st = self.stages[-1]
        st["saves"].append(dict(number=handler.save_number, step=int(state["step"]), time=float(state["time"]), dt=float(state["dt"]),
                                hashes={k: h(v) for k, v in data.items()}, completed=False,
                                running={k: np.array(v, copy=True) for k, v in (running or {}).items()} if running is not None else None,
                                updates_done=len([u for u in st["updates"] if not u.get("failed")])))

    def on_save_end(self, handler, exc):
        self.stages[-1]["saves"][-1]["completed"] = exc is None
