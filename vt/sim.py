"""Simulation case spec -> real tdgl objects -> one monitored run of tdgl.solve."""
import math
import os
import shutil
import tempfile

import numpy as np

from . import zoo
from .recorder import Recorder


# ----------------------------------------------------------------------------
# option / drive construction
# ----------------------------------------------------------------------------
def build_options(o, output_file=None):
    import tdgl

    kw = dict(o)
    kw.pop("output", None)
    kw.pop("auto_dt", None)
    if "terminal_psi" in kw:
        tp = kw["terminal_psi"]
        if tp == "none":
            kw["terminal_psi"] = None
        elif isinstance(tp, (list, tuple)):
            kw["terminal_psi"] = complex(tp[0], tp[1])
    kw["output_file"] = output_file
    # a positive progress interval switches tqdm off (the runner then only logs); the
    # progress-reporting configurations are varied on purpose in C11
    kw.setdefault("progress_interval", 10**9)
    if kw["progress_interval"] == "none":
        kw["progress_interval"] = None
    return tdgl.SolverOptions(**kw)


# user-level callables must be module-level functions so that cloudpickle / inspect work
def _shifted_uniform(x, y, z, *, B, cx, cy):
    """Uniform field B (field_units) in a gauge shifted by the constant (cx, cy)
    [field_units*length_units]; A = B/2 (-y, x) + c."""
    x = np.atleast_1d(x); y = np.atleast_1d(y)
    return np.stack([-B * y / 2 + cx, B * x / 2 + cy, np.zeros_like(x)], axis=1)


def _tilted_uniform(x, y, z, *, Bz, Bx):
    """Tilted uniform field (Bx, 0, Bz) [field_units]: A = (-Bz y/2, Bz x/2, Bx y) - a vector potential with a z component."""
    x = np.atleast_1d(x); y = np.atleast_1d(y)
    return np.stack([-Bz * y / 2, Bz * x / 2, Bx * y], axis=1)


def _osc_plain_field(x, y, z, *, t, B, w):
    """Uniform field B cos(w t) (symmetric gauge) as ONE plain time-dependent function (not a product of Parameters)."""
    x, y = np.atleast_1d(x), np.atleast_1d(y)
    f = 0.5 * B * math.cos(w * t)
    return np.stack([-f * y, f * x, np.zeros_like(x)], axis=1)


def _osc_scale(x, y, z, *, t, w, lo, hi):
    return lo + (hi - lo) * 0.5 * (1 - math.cos(w * t))


def _step_scale(x, y, z, *, t, times, values):
    v = values[0]
    for tt, vv in zip(times, values[1:]):
        if t >= tt:
            v = vv
    return v


def CurrentFunc(base, amp, w):
    """Time-dependent balanced terminal currents: I_k(t) = base_k * (1 + amp*sin(w t)),
    as a plain function (the documented form of a time-dependent terminal current)."""
    base = dict(base)

    def terminal_currents(t):
        f = np.float64(1.0) + amp * np.sin(w * t)  # numpy scalars, as user code typically produces
        return {k: v * f for k, v in base.items()}

    return terminal_currents


def CurrentPulse(base, t_off):
    """Balanced currents switched off (exactly zero on every terminal) for t >= t_off."""
    base = dict(base)

    def terminal_currents(t):
        if t < t_off:
            return dict(base)
        return {k: 0.0 for k in base}

    return terminal_currents


def CurrentSoftStart(base, tau, t0=0.0):
    """Balanced currents switched on smoothly: I_k(t) = base_k * tanh((t + t0) / tau); exactly base_k once (t + t0) > 19.1 tau
    (tanh is 1.0 in double precision there)."""
    base = dict(base)

    def terminal_currents(t):
        f = math.tanh((t + t0) / tau)
        return {k: v * f for k, v in base.items()}

    return terminal_currents


def CurrentSwitch(phases, times, persistent=False):
    """Piecewise-constant balanced currents: phases[i] for times[i-1] <= t < times[i].
    persistent=True: the function hands out ITS OWN pre-built dicts (as `lambda t: levels[i]` does), not copies."""
    phases = [dict(p) for p in phases]
    pristine = [dict(p) for p in phases]
    times = list(times)

    def terminal_currents(t):
        i = sum(1 for x in times if t >= x)
        return phases[i] if persistent else dict(phases[i])

    terminal_currents.phases = phases
    terminal_currents.pristine = pristine
    return terminal_currents


def _call_with(fn, t):
    return fn(t)


class _CurrentHolder:
    def __init__(self, fn):
        self.fn = fn

    def currents(self, t):
        return self.fn(t)

    def __call__(self, t):
        return self.fn(t)


def eps_spatial_vec(r, *, vectorized=True):
    r = np.atleast_2d(r)
    return 1.0 - 0.6 * np.exp(-((r[:, 0] - 0.3) ** 2 + (r[:, 1] + 0.2) ** 2) / 0.8)


def eps_spatial_novec(r):
    return 1.0 - 0.6 * math.exp(-((r[0] - 0.3) ** 2 + (r[1] + 0.2) ** 2) / 0.8)


def eps_time_vec(r, *, t, vectorized=True):
    r = np.atleast_2d(r)
    return (1.0 - 0.5 * np.exp(-((r[:, 0]) ** 2 + (r[:, 1]) ** 2) / 0.8)) * (0.7 + 0.3 * math.cos(0.9 * t))


def build_drive(d, device, options):
    """Returns (applied_vector_potential, terminal_currents, disorder_epsilon)."""
    import tdgl
    from tdgl.sources import ConstantField, CurrentLoop, LinearRamp
    from tdgl.sources.scaling import Scale

    fu, lu, cu = options.field_units, device.length_units, options.current_units
    A = d.get("A", {"kind": "zero"})
    k = A["kind"]
    if k == "zero":
        avp = 0.0
    elif k == "uniform_float":
        avp = float(A["B"])
    elif k == "uniform":
        avp = ConstantField(A["B"], field_units=fu, length_units=lu)
    elif k == "shifted":
        avp = tdgl.Parameter(_shifted_uniform, B=float(A["B"]), cx=float(A["c"][0]), cy=float(A["c"][1]))
    elif k == "tilted":
        avp = tdgl.Parameter(_tilted_uniform, Bz=float(A["B"]), Bx=float(A.get("Bx", 2.0 * A["B"])))
    elif k == "ramp":
        avp = LinearRamp(tmin=A["tmin"], tmax=A["tmax"], initial=A.get("initial", 0.0), final=A.get("final", 1.0)) * ConstantField(A["B"], field_units=fu, length_units=lu)
    elif k == "ramp_left":
        avp = ConstantField(A["B"], field_units=fu, length_units=lu) * LinearRamp(tmin=A["tmin"], tmax=A["tmax"], initial=A.get("initial", 0.0), final=A.get("final", 1.0))
    elif k == "osc":
        avp = Scale(_osc_scale, w=A["w"], lo=A.get("lo", 0.0), hi=A.get("hi", 1.0)) * ConstantField(A["B"], field_units=fu, length_units=lu)
    elif k == "osc_plain":
        avp = tdgl.Parameter(_osc_plain_field, time_dependent=True, B=float(A["B"]), w=float(A["w"]))
    elif k == "piecewise":
        avp = Scale(_step_scale, times=tuple(A["times"]), values=tuple(A["values"])) * ConstantField(A["B"], field_units=fu, length_units=lu)
    elif k == "loop":
        avp = CurrentLoop(current=A["current"], radius=A["radius"], center=tuple(A["center"]), current_units=cu, field_units=fu, length_units=lu)
    elif k == "loop_ramp":
        avp = LinearRamp(tmin=A["tmin"], tmax=A["tmax"]) * CurrentLoop(current=A["current"], radius=A["radius"], center=tuple(A["center"]), current_units=cu, field_units=fu, length_units=lu)
    else:
        raise ValueError(k)

    c = d.get("currents", {"kind": "none"})
    if c["kind"] == "none":
        tc = None
    elif c["kind"] in ("const", "decimal"):
        tc = dict(c["values"])
    elif c["kind"] == "callable":
        tc = CurrentFunc(c["values"], c.get("amp", 0.5), c.get("w", 1.3))
    elif c["kind"] == "pulse":
        tc = CurrentPulse(c["values"], c["t_off"])
    elif c["kind"] == "switch":
        tc = CurrentSwitch(c["phases"], c["times"], persistent=bool(c.get("persistent")))
    elif c["kind"] == "softstart":
        tc = CurrentSoftStart(c["values"], c["tau"], c.get("t0", 0.0))
    else:
        raise ValueError(c["kind"])
    if callable(tc) and c.get("form", "function") != "function":
        # valid callables that are not plain functions
        import functools

        holder = _CurrentHolder(tc)
        tc = {"partial": functools.partial(_call_with, tc), "method": holder.currents, "object": holder}[c["form"]]

    e = d.get("epsilon", {"kind": "one"})
    if e["kind"] == "one":
        eps = 1.0
    elif e["kind"] == "const":
        eps = float(e["value"])
    elif e["kind"] in ("spatial", "spatial_novec", "time") and e.get("L", 1.0) != 1.0:
        # the same physical function of position when the coordinates are given in other length units
        L = float(e["L"])
        if e["kind"] == "spatial":
            def eps(r, *, vectorized=True, _L=L):
                return eps_spatial_vec(np.atleast_2d(r) / _L)
        elif e["kind"] == "spatial_novec":
            def eps(r, _L=L):
                return eps_spatial_novec((r[0] / _L, r[1] / _L))
        else:
            def eps(r, *, t, vectorized=True, _L=L):
                return eps_time_vec(np.atleast_2d(r) / _L, t=t)
    elif e["kind"] == "spatial":
        eps = eps_spatial_vec
    elif e["kind"] == "spatial_novec":
        eps = eps_spatial_novec
    elif e["kind"] == "time":
        eps = eps_time_vec
    else:
        raise ValueError(e["kind"])
    return avp, tc, eps


def rescale_drive_times(drive, f):
    """Multiply every time-like parameter of a drive spec by f (in place)."""
    A = drive.get("A", {})
    for key in ("tmin", "tmax"):
        if key in A:
            A[key] = A[key] * f
    if "times" in A:
        A["times"] = [t * f for t in A["times"]]
    if "w" in A:
        A["w"] = A["w"] / f
    c = drive.get("currents", {})
    if "w" in c:
        c["w"] = c["w"] / f
    if "t_off" in c:
        c["t_off"] = c["t_off"] * f
    for key in ("tau", "t0"):
        if key in c:
            c[key] = c[key] * f
    if c.get("kind") == "switch":
        c["times"] = [t * f for t in c["times"]]
    return drive


def resolve_auto_dt(spec, device):
    """options.auto_dt = {steps, frac[, therm_steps]}: fixed-step runs get their step from the mesh's
    explicit stability bound at run time (dt = frac * dt*), so that workloads do not die of
    'failed to converge'; time-like drive parameters are rescaled with the run length."""
    import copy

    o = spec["options"]
    auto = o.get("auto_dt")
    if not auto:
        return spec
    from . import stability

    spec = copy.deepcopy(spec)
    o = spec["options"]
    o.pop("auto_dt")
    dts = stability.dt_star(device)
    T_old = o["solve_time"]
    if o.get("adaptive", True):
        o["dt_max"] = auto.get("frac_max", 0.5) * dts
        o["dt_init"] = min(o.get("dt_init", 1e-3), 0.1 * dts)
        o["solve_time"] = 0.6 * auto["steps"] * o["dt_max"]
    else:
        dt = auto.get("frac", 0.3) * dts
        o["dt_init"] = dt
        o["dt_max"] = max(o.get("dt_max", 0.1), dt)
        o["solve_time"] = max(auto["steps"] * dt - dt / 2, 0.0) if auto.get("exact") else auto["steps"] * dt
        if auto.get("therm_steps"):
            o["skip_time"] = auto["therm_steps"] * dt - dt / 2
    if T_old > 0 and o["solve_time"] > 0:
        rescale_drive_times(spec.get("drive", {}), o["solve_time"] / T_old)
    return spec


def currents_at(d, t):
    """Harness-side evaluation of the requested terminal currents at time t (user units)."""
    c = d.get("currents", {"kind": "none"})
    if c["kind"] == "none":
        return {}
    if c["kind"] in ("const", "decimal"):
        return dict(c["values"])
    if c["kind"] == "pulse":
        return dict(c["values"]) if t < c["t_off"] else {k: 0.0 for k in c["values"]}
    if c["kind"] == "softstart":
        f = math.tanh((t + c.get("t0", 0.0)) / c["tau"])
        return {k: v * f for k, v in c["values"].items()}
    if c["kind"] == "switch":
        # piecewise constant: phases[i] holds for times[i-1] <= t < times[i]
        i = sum(1 for x in c["times"] if t >= x)
        return dict(c["phases"][i])
    f = 1.0 + c.get("amp", 0.5) * math.sin(c.get("w", 1.3) * t)
    return {k: v * f for k, v in c["values"].items()}


# ----------------------------------------------------------------------------
# run
# ----------------------------------------------------------------------------
class RunResult:
    pass


class StepCapReached(BaseException):
    """raised by the harness (not by the library) when a run needs far more solve steps than its specification allows: every
    workload is bounded by operations, not only by wall time"""


class _StepCap:
    def __init__(self, cap):
        self.cap, self.n = int(cap), 0

    def on_update_begin(self, ctx):
        self.n += 1
        if self.n > self.cap:
            raise StepCapReached(f"more than {self.cap} solve steps")


def run_sim(spec, listeners=(), failpoints=None, device=None, seed_solution=None, keep_dir=False,
            pre_solve=None, workdir=None, options_obj=None, avp_obj=None):
    """Run tdgl.solve once under the flight recorder. Returns RunResult with
    .device .options .solution .exception .outdir .output_path .recorder .refused"""
    import tdgl

    rr = RunResult()
    rr.refused = None
    if device is None:
        device, why = zoo.try_build_device(spec["device"])
        if device is None:
            rr.refused = why
            return rr
    rr.device = device
    spec = resolve_auto_dt(spec, device)
    rr.spec = spec
    out_mode = spec.get("options", {}).get("output", "file")
    rr.outdir = workdir or tempfile.mkdtemp(prefix="vt_run_", dir=os.environ.get("VT_TMP"))
    path = os.path.join(rr.outdir, "out.h5") if out_mode == "file" else None
    options = build_options(spec["options"], output_file=path)
    if options_obj is not None:
        # an options object supplied by the caller (e.g. the one re-loaded from a Solution file)
        options = options_obj
        options.output_file = path
        options.progress_interval = 10**9
    options.pause_on_interrupt = spec.get("options", {}).get("pause_on_interrupt", False)
    rr.options = options
    avp, tc, eps = build_drive(spec.get("drive", {}), device, options)
    if avp_obj is not None:
        avp = avp_obj  # the caller's own Parameter object (used before, or used again later)
    rr.drive = (avp, tc, eps)
    # the caller's objects are inputs: a dict of terminal currents and the options object are what they were afterwards
    import copy as _copy
    import dataclasses as _dc

    tc_before = _copy.deepcopy(tc) if isinstance(tc, dict) else None
    opt_before = _dc.asdict(options)
    seed_before = None
    if seed_solution is not None:
        # a seed solution is an input too: what it holds (the state it was loaded with) is the same afterwards
        sd = seed_solution.tdgl_data
        seed_before = {f: np.array(getattr(sd, f), copy=True) for f in ("psi", "mu", "supercurrent", "normal_current", "induced_vector_potential", "applied_vector_potential", "epsilon")
                       if isinstance(getattr(sd, f, None), np.ndarray)}
    if spec.get("max_updates"):
        listeners = list(listeners) + [_StepCap(spec["max_updates"])]
    rec = Recorder(listeners, failpoints)
    rr.recorder = rec
    rr.solution = None
    rr.exception = None
    rr.rng_state_before = np.random.get_state()[1][:8].tolist()
    with rec:
        try:
            solver = tdgl.TDGLSolver(device, options, applied_vector_potential=avp, terminal_currents=tc,
                                     disorder_epsilon=eps, seed_solution=seed_solution)
            rr.solver = solver
            if spec.get("rival_solver"):
                # a second solver object for the same Device, constructed (not run) while the first one is waiting to be run: another
                # field, pinning toggled; the monitors do not watch it
                saved_ = rec.listeners
                rec.listeners = []
                try:
                    import copy as _cp

                    o2_ = _cp.copy(options)
                    o2_.output_file = None
                    o2_.include_screening = False
                    if spec["rival_solver"] == "toggle_pinning":
                        o2_.terminal_psi = None if options.terminal_psi is not None else 0.0
                    A_ = spec.get("drive", {}).get("A", {})
                    rr.rival = tdgl.TDGLSolver(device, o2_, applied_vector_potential=float(2.5 * A_.get("B", 0.1)) if A_.get("kind") != "zero" else 0.1,
                                               terminal_currents=tc if isinstance(tc, dict) else None)
                finally:
                    rec.listeners = saved_
                    rec.solver = solver
            if pre_solve is not None:
                pre_solve(solver)
                opt_before = _dc.asdict(options)  # (what the CALLER does to its own options in between is the caller's business)
            rr.solution = solver.solve()
            if spec.get("solve_twice"):
                # the same TDGLSolver object is run again (a legitimate use of the public class):
                # the second run must be a proper run of the same problem
                rr.first_solution = rr.solution
                rr.solution = solver.solve()
        except BaseException as exc:  # noqa: BLE001 (KeyboardInterrupt included on purpose)
            if isinstance(exc, (SystemExit,)):
                raise
            if isinstance(exc, ValueError) and "does not contain any points on the boundary of the mesh" in str(exc) and not spec.get("expect_rejection"):
                # the generated terminal happens to cover no boundary edge centre of this coarse mesh
                rr.refused = "refused: generated terminal covers no boundary edge"
                shutil.rmtree(rr.outdir, ignore_errors=True)
                return rr
            if isinstance(exc, RuntimeError) and "exactly singular" in str(exc):
                # SuperLU refuses the (singular, pure-Neumann) Poisson matrix of this mesh outright:
                # a refusal at construction, counted as a class, not judged by any property here
                rr.refused = "refused: Poisson factorisation exactly singular"
                shutil.rmtree(rr.outdir, ignore_errors=True)
                return rr
            rr.exception = exc
    rr.rng_state_after = np.random.get_state()[1][:8].tolist()
    rr.mutated = []
    if tc_before is not None and tc != tc_before:
        rr.mutated.append({"input": "terminal_currents dict", "before": {k: float(v) for k, v in tc_before.items()}, "after": {k: float(v) for k, v in tc.items()}})
    if callable(tc) and getattr(tc, "pristine", None) is not None and tc.phases != tc.pristine:
        rr.mutated.append({"input": "dicts returned by the terminal_currents callable", "before": [dict(p) for p in tc.pristine[:2]], "after": [dict(p) for p in tc.phases[:2]]})
    if seed_before is not None:
        sd = seed_solution.tdgl_data
        for f, was in seed_before.items():
            now = np.asarray(getattr(sd, f))
            if now.shape != was.shape or not np.array_equal(now, was, equal_nan=True):
                rr.mutated.append({"input": "seed solution", "field": f, "max_abs_change": float(np.max(np.abs(now - was))) if now.shape == was.shape else None})
    opt_after = _dc.asdict(options)
    ch = [k for k in opt_before if opt_before[k] != opt_after.get(k)]
    if ch:
        rr.mutated.append({"input": "SolverOptions", "fields": ch, "before": {k: repr(opt_before[k]) for k in ch}, "after": {k: repr(opt_after.get(k)) for k in ch}})
    rr.output_path = getattr(rr.solution, "path", None) or path
    if not keep_dir:
        rr.cleanup = lambda: shutil.rmtree(rr.outdir, ignore_errors=True)
    else:
        rr.cleanup = lambda: None
    return rr
