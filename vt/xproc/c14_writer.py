"""Run as a SCRIPT (so that the functions below live in __main__, as in a user's script or notebook): builds parameters
over them, writes them to disk with the library's own means, and records what they evaluate to.
usage: c14_writer.py <outdir>"""
import json
import os
import pickle
import sys

import numpy as np


def uniform_A(x, y, z, *, B=0.3):
    x = np.atleast_1d(x); y = np.atleast_1d(y)
    return np.stack([-B * y / 2, B * x / 2, np.zeros_like(x)], axis=1)


def ramped_A(x, y, z, *, t, rate=2.0):
    x = np.atleast_1d(x); y = np.atleast_1d(y)
    return rate * t * np.stack([-y / 2, x / 2, np.zeros_like(x)], axis=1)


def bump2d(x, y, *, amp=0.7):
    return amp * np.exp(-(x**2 + y**2))


def eps_fn(r):
    return 1.0 - 0.5 * float(np.exp(-(r[0] ** 2 + r[1] ** 2)))


def main(out):
    import cloudpickle
    import tdgl
    from tdgl import Parameter

    os.makedirs(out, exist_ok=True)
    pts = np.random.default_rng(5).uniform(-1, 1, (6, 3))
    x, y, z = pts.T
    objs = {
        "sum3": Parameter(uniform_A, B=0.2) + Parameter(ramped_A, time_dependent=True, rate=3.0),
        "scaled3": 2.5 * Parameter(uniform_A, B=0.4),
        "nested3": (Parameter(uniform_A) - Parameter(ramped_A, time_dependent=True)) * 0.5 + Parameter(uniform_A, B=1.0),
        "prod2": Parameter(bump2d) * Parameter(bump2d, amp=2.0) + 1.0,
    }
    expected = {}
    for name, obj in objs.items():
        three = name.endswith("3")
        td = bool(obj.time_dependent)
        args = (x, y, z) if three else (x, y)
        kw = {"t": 0.37} if td else {}
        expected[name] = {"value": np.asarray(obj(*args, **kw)).tolist(), "time_dependent": td, "three": three}
        with open(os.path.join(out, name + ".pickle"), "wb") as f:
            pickle.dump(obj, f)  # the composite's own __getstate__ is in charge of its operands
        with open(os.path.join(out, name + ".cloudpickle"), "wb") as f:
            cloudpickle.dump(obj, f)
    # a Solution file carrying such parameters (vector potential, epsilon)
    layer = tdgl.Layer(coherence_length=1.0, london_lambda=2.0, thickness=0.1, gamma=1.0)
    film = tdgl.Polygon("film", points=tdgl.geometry.box(4.0, 3.0))
    dev = tdgl.Device("xproc", layer=layer, film=film, length_units="um")
    dev.make_mesh(max_edge_length=0.8, smooth=0)
    opts = tdgl.SolverOptions(solve_time=0.05, dt_init=1e-3, dt_max=5e-3, save_every=5, progress_interval=10**9,
                              output_file=os.path.join(out, "run.h5"), field_units="mT")
    sol = tdgl.solve(dev, opts, applied_vector_potential=objs["sum3"], disorder_epsilon=eps_fn)
    sol.to_hdf5()
    expected["solution"] = {
        "A": np.asarray(sol.applied_vector_potential(x, y, z, t=0.37)).tolist(),
        "eps": [float(sol.disorder_epsilon(p[:2])) for p in pts],
        "psi_abs_sum": float(np.abs(sol.tdgl_data.psi).sum()),
    }
    with open(os.path.join(out, "expected.json"), "w") as f:
        json.dump({"points": pts.tolist(), "expected": expected}, f)


if __name__ == "__main__":
    main(sys.argv[1])
