"""Run as a SCRIPT in ANOTHER interpreter: reads back what c14_writer.py wrote. The names the writer used for its functions
are bound to DIFFERENT functions here (a later session of the same user): a parameter that was written by reference would
silently evaluate these instead, or fail to load.
usage: c14_reader.py <outdir>   -> <outdir>/report.json"""
import json
import os
import pickle
import sys

import numpy as np


def uniform_A(x, y, z, *, B=0.3):
    raise RuntimeError("the reader's uniform_A was called: the parameter was stored by reference")


def ramped_A(x, y, z, *, t, rate=2.0):
    return np.full((len(np.atleast_1d(x)), 3), 123.0)


def bump2d(x, y, *, amp=0.7):
    return -1.0 + 0 * np.atleast_1d(x)


def eps_fn(r):
    return -5.0


def main(out):
    import cloudpickle
    import tdgl

    spec = json.load(open(os.path.join(out, "expected.json")))
    pts = np.array(spec["points"]); x, y, z = pts.T
    rep = []
    for name, e in spec["expected"].items():
        if name == "solution":
            continue
        for how, loader in (("pickle", pickle.load), ("cloudpickle", cloudpickle.load)):
            item = {"name": name, "how": how}
            try:
                with open(os.path.join(out, f"{name}.{how}"), "rb") as f:
                    obj = loader(f)
                args = (x, y, z) if e["three"] else (x, y)
                kw = {"t": 0.37} if e["time_dependent"] else {}
                got = np.asarray(obj(*args, **kw))
                item["equal"] = bool(np.array_equal(got, np.asarray(e["value"])))
                item["time_dependent_same"] = bool(bool(obj.time_dependent) == e["time_dependent"])
            except BaseException as exc:  # noqa: BLE001
                item["error"] = repr(exc)[:300]
            rep.append(item)
    item = {"name": "solution", "how": "Solution.from_hdf5"}
    try:
        sol = tdgl.Solution.from_hdf5(os.path.join(out, "run.h5"))
        e = spec["expected"]["solution"]
        item["equal"] = bool(np.array_equal(np.asarray(sol.applied_vector_potential(x, y, z, t=0.37)), np.asarray(e["A"]))
                             and [float(sol.disorder_epsilon(p[:2])) for p in pts] == e["eps"]
                             and float(np.abs(sol.tdgl_data.psi).sum()) == e["psi_abs_sum"])
        item["time_dependent_same"] = True
    except BaseException as exc:  # noqa: BLE001
        item["error"] = repr(exc)[:300]
    rep.append(item)
    with open(os.path.join(out, "report.json"), "w") as f:
        json.dump(rep, f)


if __name__ == "__main__":
    main(sys.argv[1])
