"""Independent planar geometry: edges of a triangulation, circumcentres, shoelace
areas, winding numbers, clipped Voronoi cells. numpy + shapely only; no tdgl."""
import math

import numpy as np


def edges_from_elements(elements):
    """Unique undirected edges (i<j), sorted lexicographically, with the number of
    incident triangles and, per edge, the list of incident triangle indices."""
    inc = {}
    for t, (a, b, c) in enumerate(np.asarray(elements).tolist()):
        for i, j in ((a, b), (b, c), (c, a)):
            key = (i, j) if i < j else (j, i)
            inc.setdefault(key, []).append(t)
    keys = sorted(inc)
    edges = np.array(keys, dtype=np.int64).reshape(-1, 2)
    tris = [inc[k] for k in keys]
    counts = np.array([len(x) for x in tris])
    return edges, counts, tris


def signed_tri_areas(sites, elements):
    p = np.asarray(sites)[np.asarray(elements)]
    return 0.5 * ((p[:, 1, 0] - p[:, 0, 0]) * (p[:, 2, 1] - p[:, 0, 1]) - (p[:, 2, 0] - p[:, 0, 0]) * (p[:, 1, 1] - p[:, 0, 1]))


def circumcenters(sites, elements):
    """Solve |c-A|^2 = |c-B|^2 = |c-C|^2 as a 2x2 linear system per triangle (long double)."""
    p = np.asarray(sites, dtype=np.longdouble)[np.asarray(elements)]
    A, B, C = p[:, 0], p[:, 1], p[:, 2]
    a11 = 2 * (B[:, 0] - A[:, 0]); a12 = 2 * (B[:, 1] - A[:, 1])
    a21 = 2 * (C[:, 0] - A[:, 0]); a22 = 2 * (C[:, 1] - A[:, 1])
    b1 = (B**2).sum(1) - (A**2).sum(1)
    b2 = (C**2).sum(1) - (A**2).sum(1)
    det = a11 * a22 - a12 * a21
    cx = (b1 * a22 - a12 * b2) / det
    cy = (a11 * b2 - a21 * b1) / det
    return np.stack([cx, cy], axis=1).astype(float)


def shoelace(pts):
    pts = np.asarray(pts, dtype=float)
    x, y = pts[:, 0], pts[:, 1]
    return 0.5 * float(np.sum(x * np.roll(y, -1) - np.roll(x, -1) * y))


def winding_number(points, poly):
    """Winding number of closed polygon `poly` (n,2; closing vertex optional) around
    each point; nonzero = inside. Also returns the distance to the outline."""
    P = np.asarray(points, dtype=float)
    V = np.asarray(poly, dtype=float)
    if np.allclose(V[0], V[-1]):
        V = V[:-1]
    W = np.roll(V, -1, axis=0)
    wn = np.zeros(len(P), dtype=int)
    dmin = np.full(len(P), np.inf)
    for a, b in zip(V, W):
        # crossing test (Sunday's algorithm)
        isleft = (b[0] - a[0]) * (P[:, 1] - a[1]) - (P[:, 0] - a[0]) * (b[1] - a[1])
        up = (a[1] <= P[:, 1]) & (b[1] > P[:, 1]) & (isleft > 0)
        dn = (a[1] > P[:, 1]) & (b[1] <= P[:, 1]) & (isleft < 0)
        wn += up.astype(int) - dn.astype(int)
        # distance to segment
        ab = b - a
        L2 = float(ab @ ab)
        if L2 == 0:
            d = np.hypot(P[:, 0] - a[0], P[:, 1] - a[1])
        else:
            t = np.clip(((P - a) @ ab) / L2, 0, 1)
            proj = a + t[:, None] * ab
            d = np.hypot(P[:, 0] - proj[:, 0], P[:, 1] - proj[:, 1])
        dmin = np.minimum(dmin, d)
    return wn, dmin


def clip_halfplane(poly, n, c):
    """Sutherland-Hodgman clip of a CONVEX polygon (list of (x,y)) by n.x <= c."""
    out = []
    m = len(poly)
    for k in range(m):
        p, q = poly[k], poly[(k + 1) % m]
        dp = n[0] * p[0] + n[1] * p[1] - c
        dq = n[0] * q[0] + n[1] * q[1] - c
        if dp <= 0:
            out.append(p)
        if (dp < 0 < dq) or (dq < 0 < dp):
            t = dp / (dp - dq)
            out.append((p[0] + t * (q[0] - p[0]), p[1] + t * (q[1] - p[1])))
    return out


def voronoi_region(i, sites, neighbours, bbox):
    """Convex Voronoi region of site i w.r.t. the given neighbour sites, inside bbox."""
    x0, y0, x1, y1 = bbox
    poly = [(x0, y0), (x1, y0), (x1, y1), (x0, y1)]
    p = sites[i]
    for j in neighbours:
        q = sites[j]
        n = (q[0] - p[0], q[1] - p[1])
        c = 0.5 * (q[0] ** 2 + q[1] ** 2 - p[0] ** 2 - p[1] ** 2)
        poly = clip_halfplane(poly, n, c)
        if len(poly) < 3:
            return []
    return poly


def angle_at(p, a, b):
    """Angle a-p-b at p."""
    u = (a[0] - p[0], a[1] - p[1])
    v = (b[0] - p[0], b[1] - p[1])
    return math.atan2(abs(u[0] * v[1] - u[1] * v[0]), u[0] * v[0] + u[1] * v[1])
