"""Independent reference assembly of the finite-volume operators, written from the
documentation's formulas (docs/background.rst) as explicit per-edge accumulation.

Inputs are plain arrays; no tdgl import. Conventions (documented):
  edge k = (i, j) with i < j, direction e = r_j - r_i, length |e|, dual length s.
  (grad f)_k       = (U_k f_j - f_i) / |e_k|,  U_k = exp(-i A_k . e_k)
  (div F)_i        = (1/a_i) sum_{k=(i,.)} +s_k F_k  +  (1/a_j) sum_{k=(.,j)} -s_k F_k
  (lap f)_i        = (1/a_i) sum_{j in N(i)} s_ij (U_ij f_j - f_i) / |e_ij|,  U_ji = conj(U_ij)
  (B q)_i          = (1/a_i) sum_{boundary edges b touching i} (l_b / 2) q_b
"""
import numpy as np
import scipy.sparse as sp


def link_variables(directions, A_edges):
    if A_edges is None:
        return np.ones(len(directions), dtype=complex)
    return np.exp(-1j * np.sum(np.asarray(A_edges) * directions, axis=1))


def gradient(n_sites, edges, edge_lengths, directions, A_edges=None):
    m = len(edges)
    U = link_variables(directions, A_edges)
    G = sp.lil_matrix((m, n_sites), dtype=complex)
    for k in range(m):
        i, j = edges[k]
        G[k, j] += U[k] / edge_lengths[k]
        G[k, i] += -1.0 / edge_lengths[k]
    return G.tocsr()


def divergence(n_sites, edges, dual_lengths, areas):
    m = len(edges)
    D = sp.lil_matrix((n_sites, m), dtype=float)
    for k in range(m):
        i, j = edges[k]
        D[i, k] += dual_lengths[k] / areas[i]
        D[j, k] += -dual_lengths[k] / areas[j]
    return D.tocsr()


def laplacian(n_sites, edges, edge_lengths, dual_lengths, areas, directions, A_edges=None, fixed=None):
    U = link_variables(directions, A_edges)
    fixed = set(int(x) for x in (fixed if fixed is not None else []))
    L = sp.lil_matrix((n_sites, n_sites), dtype=complex)
    for k in range(len(edges)):
        i, j = int(edges[k][0]), int(edges[k][1])
        w = dual_lengths[k] / edge_lengths[k]
        if i not in fixed:
            L[i, j] += w * U[k] / areas[i]
            L[i, i] += -w / areas[i]
        if j not in fixed:
            L[j, i] += w * np.conj(U[k]) / areas[j]
            L[j, j] += -w / areas[j]
    for i in fixed:
        L[i, i] = 1.0
    return L.tocsr()


def boundary_flux(n_sites, edges, edge_lengths, areas, boundary_edge_indices):
    B = sp.lil_matrix((n_sites, len(boundary_edge_indices)), dtype=float)
    for b, k in enumerate(boundary_edge_indices):
        i, j = edges[k]
        B[i, b] += edge_lengths[k] / (2 * areas[i])
        B[j, b] += edge_lengths[k] / (2 * areas[j])
    return B.tocsr()


def supercurrent(psi, edges, edge_lengths, directions, A_edges=None):
    """J_ij = Im[ conj(psi_i) (U_ij psi_j - psi_i) / e_ij ]"""
    U = link_variables(directions, A_edges)
    i, j = edges[:, 0], edges[:, 1]
    return np.imag(np.conj(psi[i]) * (U * psi[j] - psi[i]) / edge_lengths)


# vectorised versions (for in-situ use on every step)
def laplacian_apply(psi, edges, edge_lengths, dual_lengths, areas, directions, A_edges=None):
    """(lap psi) without pinned rows, matrix free."""
    U = link_variables(directions, A_edges)
    i, j = edges[:, 0], edges[:, 1]
    w = dual_lengths / edge_lengths
    out = np.zeros(len(areas), dtype=complex)
    np.add.at(out, i, w * (U * psi[j] - psi[i]))
    np.add.at(out, j, w * (np.conj(U) * psi[i] - psi[j]))
    return out / areas


def laplacian_fast(n_sites, edges, edge_lengths, dual_lengths, areas, directions, A_edges=None, fixed=None):
    """Vectorised sparse assembly (same formula as `laplacian`, coo accumulation)."""
    U = link_variables(directions, A_edges)
    i, j = edges[:, 0].astype(int), edges[:, 1].astype(int)
    w = dual_lengths / edge_lengths
    rows = np.concatenate([i, i, j, j])
    cols = np.concatenate([j, i, i, j])
    vals = np.concatenate([w * U / areas[i], -w / areas[i] + 0j, w * np.conj(U) / areas[j], -w / areas[j] + 0j])
    if fixed is not None and len(fixed):
        keep = ~np.isin(rows, np.asarray(fixed))
        rows, cols, vals = rows[keep], cols[keep], vals[keep]
        fx = np.asarray(fixed, dtype=int)
        rows = np.concatenate([rows, fx])
        cols = np.concatenate([cols, fx])
        vals = np.concatenate([vals, np.ones(len(fx), dtype=complex)])
    return sp.coo_matrix((vals, (rows, cols)), shape=(n_sites, n_sites)).tocsr()


def gradient_fast(n_sites, edges, edge_lengths, directions, A_edges=None):
    U = link_variables(directions, A_edges)
    m = len(edges)
    k = np.arange(m)
    rows = np.concatenate([k, k])
    cols = np.concatenate([edges[:, 1], edges[:, 0]])
    vals = np.concatenate([U / edge_lengths, -1.0 / edge_lengths + 0j])
    return sp.coo_matrix((vals, (rows, cols)), shape=(m, n_sites)).tocsr()


def max_abs_diff(A, B):
    D = (sp.csr_matrix(A) - sp.csr_matrix(B))
    D = D.tocoo()
    return float(np.max(np.abs(D.data))) if D.nnz else 0.0


def same_pattern(A, B):
    A = sp.csr_matrix(A).copy()
    B = sp.csr_matrix(B).copy()
    A.sum_duplicates(); B.sum_duplicates()
    A.sort_indices(); B.sort_indices()
    return A.shape == B.shape and np.array_equal(A.indptr, B.indptr) and np.array_equal(A.indices, B.indices)
