"""Direct O(n*m) reference sums in SI units (numpy double), loop quadrature. No tdgl."""
import numpy as np

from .units import MU0

PREF = MU0 / (4 * np.pi)


def biot_savart_sheet(eval_pos, src_pos, K, areas):
    """B(r) = mu0/4pi sum_j a_j K_j x (r - r_j)/|r - r_j|^3, K in the plane (Kx, Ky, 0). SI units.
    eval_pos (n,3), src_pos (m,3), K (m,2), areas (m,) -> (n,3)"""
    d = eval_pos[:, None, :] - src_pos[None, :, :]
    r3 = np.sum(d * d, axis=2) ** 1.5
    Kx, Ky = K[:, 0][None, :], K[:, 1][None, :]
    a = areas[None, :]
    Bx = np.sum(a * (Ky * d[:, :, 2]) / r3, axis=1)
    By = np.sum(a * (-Kx * d[:, :, 2]) / r3, axis=1)
    Bz = np.sum(a * (Kx * d[:, :, 1] - Ky * d[:, :, 0]) / r3, axis=1)
    return PREF * np.stack([Bx, By, Bz], axis=1)


def vector_potential_sheet(eval_pos, src_pos, K, areas):
    d = eval_pos[:, None, :] - src_pos[None, :, :]
    r = np.sqrt(np.sum(d * d, axis=2))
    Ax = np.sum(areas[None, :] * K[:, 0][None, :] / r, axis=1)
    Ay = np.sum(areas[None, :] * K[:, 1][None, :] / r, axis=1)
    return PREF * np.stack([Ax, Ay, np.zeros_like(Ax)], axis=1)


def loop_vector_potential(pos, center, radius, current, n=4000):
    """A(r) = mu0 I/4pi \\oint dl / |r - r'| for a circular loop in the plane z = center_z,
    Gauss-Legendre-free: the integrand is smooth and periodic, so the trapezoidal rule
    converges spectrally (n points)."""
    pos = np.atleast_2d(pos)
    th = np.linspace(0, 2 * np.pi, n, endpoint=False)
    src = np.stack([center[0] + radius * np.cos(th), center[1] + radius * np.sin(th), center[2] * np.ones(n)], axis=1)
    dl = np.stack([-radius * np.sin(th), radius * np.cos(th), np.zeros(n)], axis=1) * (2 * np.pi / n)
    d = pos[:, None, :] - src[None, :, :]
    r = np.sqrt(np.sum(d * d, axis=2))
    return PREF * current * np.einsum("ij,jk->ik", 1.0 / r, dl)
