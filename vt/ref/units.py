"""Independent unit handling: CODATA constants and a small unit table (no pint).

Scales (docs/background.rst):  Bc2 = Phi0/(2 pi xi^2),  A0 = xi Bc2,
K0 = 4 xi Bc2 / (mu0 Lambda),  Lambda = lambda^2/d.
Dimensionless edge current J relates to physical sheet current by K = (K0/4) * J
(the solver's current scale is 4*(current/length)/K0 and Solution.current_density
averages edge projections with weight 1/4; both follow from K0's factor 4)."""
import math

H = 6.62607015e-34  # exact (SI 2019)
E = 1.602176634e-19  # exact
PHI0 = H / (2 * E)
MU0 = 1.25663706212e-6  # CODATA 2018 (pint's value; 2014 exact value differs by 5e-10 rel.)

LENGTH = {"m": 1.0, "mm": 1e-3, "um": 1e-6, "nm": 1e-9, "cm": 1e-2}
FIELD = {"T": 1.0, "mT": 1e-3, "uT": 1e-6, "nT": 1e-9, "gauss": 1e-4, "G": 1e-4}
CURRENT = {"A": 1.0, "mA": 1e-3, "uA": 1e-6, "nA": 1e-9}


class Scales:
    def __init__(self, xi, lam, d, length_units="um", field_units="mT", current_units="uA"):
        self.lu = LENGTH[length_units]
        self.fu = FIELD[field_units]
        self.cu = CURRENT[current_units]
        self.xi_mag = xi
        self.xi = xi * self.lu
        self.lam = lam * self.lu
        self.d = d * self.lu
        self.Lambda = self.lam**2 / self.d
        self.Bc2 = PHI0 / (2 * math.pi * self.xi**2)
        self.A0 = self.xi * self.Bc2
        self.K0 = 4 * self.xi * self.Bc2 / (MU0 * self.Lambda)

    @property
    def A_scale(self):
        """user vector potential [field_units*length_units] -> dimensionless (units of A0)."""
        return self.fu * self.lu / self.A0

    @property
    def J_scale(self):
        """user current [current_units] per physical length [length_units magnitude]
        -> dimensionless boundary flux density."""
        return 4 * (self.cu / self.lu) / self.K0

    def current_from_dimensionless_flux(self, flux):
        """dimensionless (edge current x dimensionless length) -> user current units."""
        return flux * (self.K0 / 4) * self.xi / self.cu

    @property
    def screening_prefactor(self):
        """A_induced[dimensionless] = pref * sum_j K_j[dimless sites] a_j[xi^2 units -> lu^2 mag] / r[lu mag]
        = (mu0/4pi) K0/A0 in 1/length_units."""
        return MU0 / (4 * math.pi) * self.K0 / self.A0 * self.lu
