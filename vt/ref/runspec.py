"""Executable specification of what a run records (C05), computed from the sequence
of time steps actually used and the options only.

  t_0 = 0, t_{s+1} = t_s + dt_s          (left-to-right float sum)
  N   = first s with t_s >= solve_time   (the run stops there: exactly N updates)
  frames at steps {0, k, 2k, ...} U {N}, numbered consecutively, frame(s) = state after s updates
  per-step records: one per step 0..N-1, in order
"""


def times_from(dts):
    t = [0.0]
    for d in dts:
        t.append(t[-1] + d)
    return t


def final_step(dts, solve_time):
    """First s with t_s >= solve_time, or None if the dt sequence is too short."""
    t = 0.0
    if t >= solve_time:
        return 0
    for s, d in enumerate(dts):
        t = t + d
        if t >= solve_time:
            return s + 1
    return None


def frame_steps(N, k):
    steps = list(range(0, N + 1, k))
    if steps[-1] != N:
        steps.append(N)
    return steps
