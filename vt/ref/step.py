"""Long-double oracle for one implicit-Euler update (docs/background.rst eqs.
tdgl-num, z, w, quad-2, quad-root, psi-sol). No tdgl import.

Given psi, mu, epsilon, gamma, u, dt and the Laplacian action lap = (L psi):
    U = exp(-i mu dt);  z = U gamma^2/2 psi
    w = z |psi|^2 + U [psi + dt/u sqrt(1+gamma^2|psi|^2) ((eps-|psi|^2) psi + lap)]
    c = Re z Re w + Im z Im w
    |z|^2 s^2 - (2c+1) s + |w|^2 = 0,  s = |psi'|^2 >= 0,   psi' = w - z s
Physical branch: the root that stays finite as |z| -> 0:  s = 2|w|^2 / ((2c+1) + sqrt(disc)).
A solution with real s >= 0 exists iff disc >= 0 and (2c+1) > 0 (or w = 0)."""
import numpy as np

LD = np.longdouble
CLD = np.clongdouble


def evaluate(psi, abs_sq_psi, mu, epsilon, gamma, u, dt, lap):
    psi = np.asarray(psi, dtype=CLD)
    a2 = np.asarray(abs_sq_psi, dtype=LD)
    mu = np.asarray(mu, dtype=LD)
    eps = np.asarray(epsilon, dtype=LD)
    lap = np.asarray(lap, dtype=CLD)
    g = LD(gamma); u = LD(u); dt = LD(dt)
    ph = -mu * dt
    U = np.cos(ph) + 1j * np.sin(ph)
    z = U * (g * g / 2) * psi
    w = z * a2 + U * (psi + (dt / u) * np.sqrt(1 + g * g * a2) * ((eps - a2) * psi + lap))
    c = z.real * w.real + z.imag * w.imag
    b = 2 * c + 1
    z2 = z.real**2 + z.imag**2
    w2 = w.real**2 + w.imag**2
    disc = b * b - 4 * z2 * w2
    # magnitude of the terms entering the discriminant (for the decision band)
    disc_mag = b * b + 4 * z2 * w2
    return dict(z=z, w=w, c=c, b=b, z2=z2, w2=w2, disc=disc, disc_mag=disc_mag)


def solution(ev):
    """Physical-branch root where it exists (NaN elsewhere) and existence mask."""
    b, disc, w2, z2 = ev["b"], ev["disc"], ev["w2"], ev["z2"]
    ok = (disc >= 0) & ((b > 0) | (w2 == 0))
    with np.errstate(all="ignore"):
        s = np.where(ok, 2 * w2 / (b + np.sqrt(np.where(disc >= 0, disc, 0))), np.nan)
        s = np.where(w2 == 0, 0, s)
    psi_new = ev["w"] - ev["z"] * s
    return s, psi_new, ok
