"""Statement reach of the repository's own code during a check, recorded with
sys.monitoring (LINE events, each location disabled after its first hit: negligible cost).
Reported in the evidence as lines hit / executable lines per anchored file."""
import os
import sys

TOOL = 4
_hit = {}
_root = None


def start(repo):
    global _root
    _root = os.path.join(os.path.realpath(repo), "tdgl") + os.sep
    mon = getattr(sys, "monitoring", None)
    if mon is None:
        return False
    try:
        mon.use_tool_id(TOOL, "vt_cover")
    except ValueError:
        return False

    def cb(code, line):
        fn = code.co_filename
        if fn.startswith(_root) and "/test/" not in fn:
            _hit.setdefault(fn[len(_root):], set()).add(line)
        return mon.DISABLE

    mon.register_callback(TOOL, mon.events.LINE, cb)
    mon.set_events(TOOL, mon.events.LINE)
    return True


def snapshot():
    return {k: sorted(v) for k, v in _hit.items()}


def executable_lines(path):
    try:
        src = open(path).read()
        code = compile(src, path, "exec")
    except Exception:
        return set()
    out = set()
    stack = [code]
    while stack:
        c = stack.pop()
        for _, _, ln in c.co_lines():
            if ln is not None:
                out.add(ln)
        for k in c.co_consts:
            if hasattr(k, "co_code"):
                stack.append(k)
    return out
